#!/usr/bin/env python3-vt
"""Per-property check driver (see /verif/DESIGN.md §5).

  check.py --property C01 --tier quick|thorough
  check.py --setup                 # warm the build directories (MANIFEST.setup_cmd)
  check.py --replay <file.json>    # replay a recorded counterexample natively

exit 0: every obligation discharged within the stated bounds, all cover markers reached, must-fail twins failed,
        sampled paths agree with the native build;
exit 1: + line `VIOLATION property=<id> replay=<path>` - a counterexample that reproduces against the native build;
exit 2: inconclusive (budget exhausted, unsupported construct, solver unknown, engine/native discrepancy)."""
import sys, os, json, time, subprocess, argparse, hashlib, glob, shutil, fcntl, contextlib, atexit

ROOT = os.path.dirname(os.path.dirname(os.path.abspath(__file__)))
sys.path.insert(0, ROOT)
sys.path.insert(0, os.path.join(ROOT, 'bin'))
sys.setrecursionlimit(100000)

from llsym import run as lrun  # noqa: E402
from llsym import ir as lir  # noqa: E402
from llsym import externs as lext  # noqa: E402
from llsym.engine import Unsupported  # noqa: E402
import props  # noqa: E402

BUILD = os.path.join(ROOT, '.build')
HARNESS = os.path.join(ROOT, 'harness')
REPO = '/repo'
JOBS = int(os.environ.get('VERIF_JOBS', '16'))

FEATURES = {
    'fa': 'finalization,auto-collect',
    'faw': 'finalization,auto-collect,weak-ptrs',
    'fawc': 'finalization,auto-collect,weak-ptrs,cleaners',
    'none': '',
    'w': 'weak-ptrs',
    'a': 'auto-collect',
}


def log(*a):
    print(*a, file=sys.stderr, flush=True)


def cargo_env(extra_rustflags=''):
    env = dict(os.environ)
    env['CARGO_NET_OFFLINE'] = 'true'
    env['CARGO_TARGET_DIR'] = os.path.join(BUILD, 'target')
    env['RUSTFLAGS'] = ('--cfg rust_cc_verif ' + extra_rustflags).strip()
    env.pop('RUSTUP_TOOLCHAIN', None)
    return env


@contextlib.contextmanager
def build_lock():
    """Builds of different check processes share cargo target directories: a build and the reading of its artifacts
    (IR parsed into memory, replay binary copied to a per-process name) happen under one exclusive lock."""
    os.makedirs(BUILD, exist_ok=True)
    with open(os.path.join(BUILD, 'build.lock'), 'w') as f:
        fcntl.flock(f, fcntl.LOCK_EX)
        try:
            yield
        finally:
            fcntl.flock(f, fcntl.LOCK_UN)


_IR_CACHE = {}
_MOD_CACHE = {}


def prune_parse_cache(keep=40):
    """the pickled parse cache is keyed by IR hash: every edit of /repo adds files; keep the newest ones only"""
    d = os.path.join(BUILD, 'parse')
    try:
        fs = sorted((os.path.join(d, f) for f in os.listdir(d)), key=os.path.getmtime, reverse=True)
        for f in fs[keep:]:
            os.remove(f)
    except OSError:
        pass


def load_ir(fset, profile, lto=False):
    """Build the IR from /repo's working tree and parse it, atomically with respect to other check processes."""
    key = (fset, profile, lto)
    if key in _MOD_CACHE:
        return _MOD_CACHE[key]
    with build_lock():
        files = build_ir_lto(fset) if lto else build_ir(fset, profile)
        hashes = {os.path.basename(f): sha256(f) for f in files}
        mod, k = lrun.load_modules(files, os.path.join(BUILD, 'parse'))
    _MOD_CACHE[key] = (mod, hashes)
    return mod, hashes




def build_ir(fset, profile):
    """Emit LLVM IR for rust-cc (from /repo's working tree) and the harness crate; returns the two .ll paths."""
    key = (fset, profile)
    if key in _IR_CACHE:
        return _IR_CACHE[key]
    t0 = time.time()
    flags = '--emit=llvm-ir,link -C codegen-units=1'
    if profile == 'release':
        flags += ' -C no-vectorize-loops -C no-vectorize-slp'
    cmd = ['cargo', 'build', '--offline', '--lib', '--message-format=json', '--manifest-path', os.path.join(HARNESS, 'Cargo.toml')]
    if FEATURES[fset]:
        cmd += ['--features', FEATURES[fset]]
    if profile == 'release':
        cmd.append('--release')
    p = subprocess.run(cmd, env=cargo_env(flags), stdout=subprocess.PIPE, stderr=subprocess.PIPE, text=True)
    if p.returncode != 0:
        log(p.stderr[-4000:])
        raise BuildError("cargo build failed for features=%s profile=%s" % (fset, profile))
    lls = {}
    for line in p.stdout.splitlines():
        if not line.startswith('{'):
            continue
        m = json.loads(line)
        if m.get('reason') != 'compiler-artifact':
            continue
        name = m['target']['name'].replace('-', '_')
        if name not in ('rust_cc', 'verif_harness', 'slotmap'):
            continue
        for f in m['filenames']:
            if f.endswith('.rlib'):
                d, b = os.path.split(f)
                if os.path.basename(d) != 'deps':
                    # the top-level artifact is a hard link to deps/lib<name>-<hash>.rlib: find it by inode
                    ino = os.stat(f).st_ino
                    for g in glob.glob(os.path.join(d, 'deps', 'lib%s-*.rlib' % name)):
                        if os.stat(g).st_ino == ino:
                            d, b = os.path.split(g)
                            break
                ll = os.path.join(d, b[3:-5] + '.ll')
                if os.path.exists(ll):
                    lls[name] = ll
    if 'rust_cc' not in lls or 'verif_harness' not in lls:
        raise BuildError("IR files not found for %s/%s: %r" % (fset, profile, lls))
    files = [lls['rust_cc'], lls['verif_harness']] + ([lls['slotmap']] if 'slotmap' in lls else [])
    _IR_CACHE[key] = files
    log("[build] IR %s/%s in %.1fs" % (fset, profile, time.time() - t0))
    return files


class BuildError(Exception):
    pass


def build_ir_lto(fset):
    """Whole-program (fat LTO) IR of the `ltomain` binary: one module that also contains the non-generic std functions
    (core::fmt::write, ...). The final link fails on the undefined verif_* symbols - harmless, the IR is written before."""
    key = (fset, 'lto')
    if key in _IR_CACHE:
        return _IR_CACHE[key]
    t0 = time.time()
    cmd = ['cargo', 'rustc', '--offline', '--profile', 'lto', '--bin', 'ltomain', '--manifest-path', os.path.join(HARNESS, 'Cargo.toml')]
    if FEATURES[fset]:
        cmd += ['--features', FEATURES[fset]]
    cmd += ['--', '--emit=llvm-ir']
    p = subprocess.run(cmd, env=cargo_env(), stdout=subprocess.PIPE, stderr=subprocess.PIPE, text=True)
    cands = [f for f in glob.glob(os.path.join(BUILD, 'target', 'lto', 'deps', 'ltomain-*.ll')) if os.path.getmtime(f) >= t0 - 1]
    if not cands:
        # cargo may have found everything fresh: accept the newest module only if the build did not fail before codegen
        if 'error[' in p.stderr or 'could not compile `rust-cc`' in p.stderr or 'could not compile `verif-harness` (lib)' in p.stderr:
            log(p.stderr[-3000:])
            raise BuildError("LTO build failed for features=%s" % fset)
        cands = glob.glob(os.path.join(BUILD, 'target', 'lto', 'deps', 'ltomain-*.ll'))
    if not cands:
        log(p.stderr[-3000:])
        raise BuildError("LTO IR not produced for features=%s" % fset)
    f = max(cands, key=os.path.getmtime)
    _IR_CACHE[key] = [f]
    log("[build] LTO IR %s in %.1fs" % (fset, time.time() - t0))
    return [f]


_NATIVE_CACHE = {}


def build_native(fset, profile):
    key = (fset, profile)
    if key in _NATIVE_CACHE:
        return _NATIVE_CACHE[key]
    with build_lock():
        return _build_native_locked(fset, profile)


def _build_native_locked(fset, profile):
    key = (fset, profile)
    t0 = time.time()
    feats = 'native' + (',' + FEATURES[fset] if FEATURES[fset] else '')
    cmd = ['cargo', 'build', '--offline', '--bin', 'replay', '--message-format=json', '--manifest-path', os.path.join(HARNESS, 'Cargo.toml'),
           '--features', feats]
    if profile == 'release':
        cmd.append('--release')
    env = cargo_env()
    env['CARGO_TARGET_DIR'] = os.path.join(BUILD, 'target-native')
    p = subprocess.run(cmd, env=env, stdout=subprocess.PIPE, stderr=subprocess.PIPE, text=True)
    if p.returncode != 0:
        log(p.stderr[-4000:])
        raise BuildError("native build failed for features=%s profile=%s" % (fset, profile))
    exe = None
    for line in p.stdout.splitlines():
        if line.startswith('{'):
            m = json.loads(line)
            if m.get('reason') == 'compiler-artifact' and m.get('executable') and m['target']['name'] == 'replay':
                exe = m['executable']
    if not exe:
        raise BuildError("replay binary not found")
    # keep a private copy: cargo overwrites the artifact when the feature set changes, and other check processes rebuild it
    dst = os.path.join(BUILD, 'replay-%s-%s.%d' % (fset, profile, os.getpid()))
    shutil.copy2(exe, dst)
    atexit.register(lambda p=dst: os.path.exists(p) and os.remove(p))
    _NATIVE_CACHE[key] = dst
    log("[build] native %s/%s in %.1fs" % (fset, profile, time.time() - t0))
    return dst


def native_run(fset, profile, entry, inputs, events=False, timeout=60):
    exe = build_native(fset, profile)
    cmd = [exe, entry] + (['--events'] if events else []) + [str(x) for x in inputs]
    try:
        p = subprocess.run(cmd, stdout=subprocess.PIPE, stderr=subprocess.PIPE, text=True, timeout=timeout)
    except subprocess.TimeoutExpired:
        return dict(status='timeout', code=None, out='', events=[])
    out = p.stdout
    evs = []
    for l in out.splitlines():
        if l.startswith('EVENT '):
            evs.append([int(x) for x in l.split()[1:]])
    if p.returncode == 0:
        status = 'ok'
    elif p.returncode == 101:
        status = 'assert'
    elif p.returncode == 102:
        status = 'alloc-error'
    elif p.returncode == 103:
        status = 'assume-violated'
    elif p.returncode == 104:
        status = 'uncaught-panic'
    elif p.returncode < 0:
        status = 'signal %d' % -p.returncode
    else:
        status = 'exit %d' % p.returncode
    detail = [l for l in out.splitlines() if l.startswith('NATIVE')]
    return dict(status=status, code=p.returncode, detail=detail, events=evs, stderr=p.stderr[-500:])


def run_kani(harnesses):
    """E2: Kani/CBMC on the heap-free kernels; returns {harness: 'SUCCESSFUL' | 'FAILED' | 'missing'} and the wall time"""
    t0 = time.time()
    env = dict(os.environ)
    env['CARGO_NET_OFFLINE'] = 'true'
    cmd = ['cargo', 'kani', '--target-dir', os.path.join(BUILD, 'kani')]
    for h in harnesses:
        cmd += ['--harness', h]
    try:
        p = subprocess.run(cmd, cwd=os.path.join(ROOT, 'kani'), env=env, stdout=subprocess.PIPE, stderr=subprocess.STDOUT, timeout=1500)
        out = p.stdout.decode('utf-8', 'replace')
    except subprocess.TimeoutExpired:
        return {h: 'timeout' for h in harnesses}, time.time() - t0
    res = {}
    cur = None
    for line in out.splitlines():
        if line.startswith('Checking harness '):
            cur = line[len('Checking harness '):].rstrip('.').split('::')[-1]
        elif line.startswith('VERIFICATION:- ') and cur:
            res[cur] = line[len('VERIFICATION:- '):].strip()
    for h in harnesses:
        res.setdefault(h, 'missing')
    if any(v != 'SUCCESSFUL' for v in res.values()):
        log(out[-3000:])
    return res, time.time() - t0


def sha256(path):
    return hashlib.sha256(open(path, 'rb').read()).hexdigest()


def load_known():
    p = os.path.join(ROOT, 'known_findings.json')
    if os.path.exists(p):
        return json.load(open(p))
    return dict(known=[], fixed=[])


def matches_known(pid, run, v, known):
    """A violation is a listed finding when property, harness entry and failing obligation kind all match
    (and, when the entry records them, the role-defining inputs)."""
    for k in known.get('known', []):
        if k['property'] != pid or k['entry'] != run['entry']:
            continue
        if k.get('kind') and k['kind'] != v['kind']:
            continue
        ok = True
        for idx, val in k.get('inputs_equal', {}).items():
            i = int(idx)
            if i >= len(v['inputs']) or v['inputs'][i] != val:
                ok = False
        if ok:
            return k
    return None


def run_property(pid, tier, seed):
    t_start = time.time()
    spec = props.PROPS[pid]
    runs = [r for r in spec['runs'] if tier in r.get('tiers', ('quick', 'thorough'))]
    budget_s = spec.get('budget_s', {}).get(tier, 1800 if tier == 'quick' else 5400)
    deadline = t_start + budget_s
    known = load_known()
    prune_parse_cache()
    results = []
    status = 0
    inconclusive = []
    violations_out = []
    known_hits = []
    validated = 0
    ir_files = {}
    os.makedirs(os.path.join(BUILD, 'parse'), exist_ok=True)
    for r in runs:
        fset, profile, entry = r['features'], r['profile'], r['entry']
        try:
            mod, hashes = load_ir(fset, profile, bool(r.get('lto')))
        except BuildError as ex:
            log("BUILD-ERROR", ex)
            inconclusive.append("build failed: %s" % ex)
            status = 2
            break
        ir_files.update(hashes)
        t0 = time.time()
        try:
            d = lrun.explore_entry(mod, entry, jobs=JOBS, deadline=deadline, path_budget=r.get('paths'), seed=seed,
                                   tls_teardown=r.get('tls_teardown', False), max_violations=r.get('max_violations', 6),
                                   max_steps=r.get('max_steps', 3_000_000))
        except Unsupported as ex:
            log("UNSUPPORTED in %s: %s" % (entry, ex))
            inconclusive.append("%s: unsupported: %s" % (entry, ex))
            status = 2
            continue
        d['entry'] = entry
        d['features'] = fset
        d['profile'] = profile
        d['twin'] = bool(r.get('twin'))
        results.append(d)
        log("[run] %s %s/%s: paths=%d forks=%d queries=%d solver=%.1fs instrs=%d wall=%.1fs violations=%d %s" % (
            entry, fset, profile, d['paths'], d['forks'], d['queries'], d['solver_time'], d['instrs'], d['wall'], len(d['violations']),
            ('INCOMPLETE: ' + d['incomplete']) if d['incomplete'] else ''))
        for er in d.get('errors', []):
            log("[worker error]", er[:2000])
            inconclusive.append("%s: worker error: %s" % (entry, er.splitlines()[0]))
            status = max(status, 2)
        if r.get('twin'):
            # must-fail twin: the run fails closed if the twin passes
            if not any(v['kind'] == 'assert:9999' for v in d['violations']):
                inconclusive.append("%s: must-fail twin passed (vacuity guard)" % entry)
                status = max(status, 2)
            else:
                # the twin's counterexample must reproduce natively too: validates the replay channel
                v = [v for v in d['violations'] if v['kind'] == 'assert:9999'][0]
                nr = native_run(fset, profile, entry, v['inputs'])
                if nr['status'] == 'assert' and any('id=9999' in x for x in nr['detail']):
                    validated += 1
                else:
                    inconclusive.append("%s: twin counterexample did not reproduce natively (%s)" % (entry, nr['status']))
                    status = max(status, 2)
            continue
        if d['incomplete'] and not d['violations']:
            inconclusive.append("%s: %s" % (entry, d['incomplete']))
            status = max(status, 2)
        missing = [c for c in r.get('covers', []) if c not in d['covers']]
        if missing and not d['violations'] and not d['incomplete']:
            inconclusive.append("%s: cover markers never reached: %s" % (entry, missing))
            status = max(status, 2)
        # ---- sampled paths must agree with the native build (encoder validation)
        for smp in d['samples'][:r.get('validate', 3)]:
            for prof in ('dev', 'release') if tier == 'thorough' else (profile,):
                nr = native_run(fset, prof, entry, smp['inputs'], events=True)
                if nr['status'] != 'ok' or nr['events'] != smp.get('events', nr['events']):
                    inconclusive.append("%s: sampled path disagrees with native %s run: native=%s inputs=%s" % (entry, prof, nr['status'], smp['inputs']))
                    log("ENGINE-DISCREPANCY", entry, smp['inputs'], nr['status'], nr['detail'], "engine events", smp.get('events'), "native", nr['events'])
                    status = max(status, 2)
                else:
                    validated += 1
        # ---- counterexamples: replay before reporting
        # replay a bounded number of counterexamples per run (distinct obligations first)
        seen_kinds = set()
        ordered = [v for v in d['violations'] if not (v['kind'] in seen_kinds or seen_kinds.add(v['kind']))]
        ordered += [v for v in d['violations'] if v not in ordered]
        for v in ordered[:8]:
            kf = matches_known(pid, r, v, known)
            reps = {}
            reproduced = False
            for prof in ('dev', 'release'):
                nr = native_run(fset, prof, entry, v['inputs'])
                reps[prof] = dict(status=nr['status'], detail=nr['detail'])
                if nr['status'] not in ('ok', 'assume-violated', 'timeout'):
                    reproduced = True
            v['native'] = reps
            v['reproduced'] = reproduced
            if not reproduced:
                log("ENGINE-DISCREPANCY: counterexample does not reproduce natively:", entry, v['kind'], v['msg'], v['inputs'], reps)
                inconclusive.append("%s: counterexample (%s) did not reproduce natively" % (entry, v['kind']))
                status = max(status, 2)
                continue
            if kf is not None:
                known_hits.append((kf, v))
                continue
            os.makedirs(os.path.join(ROOT, 'replays'), exist_ok=True)
            rp = os.path.join(ROOT, 'replays', '%s-%s-%s-%s-%d.json' % (pid, entry, fset, profile, len(violations_out)))
            json.dump(dict(property=pid, entry=entry, features=fset, profile=profile, kind=v['kind'], msg=v['msg'], inputs=v['inputs'],
                           native=reps, stack=v['stack'], events=v['events']), open(rp, 'w'), indent=1)
            violations_out.append((rp, v))
        if violations_out and os.environ.get('VERIF_STOP_EARLY'):
            log("[stop-early] a reproduced violation was found; remaining runs skipped")
            break
        if time.time() > deadline:
            inconclusive.append("time budget of %ds exhausted before all runs were started" % budget_s)
            status = max(status, 2)
            break
    # ---- E2 (second opinion on the kernels)
    kani_res = None
    if spec.get('kani') and status != 2 and time.time() < deadline:
        kani_res, kt = run_kani(spec['kani'])
        log("[kani] %s in %.1fs" % (kani_res, kt))
        bad = [h for h, v in kani_res.items() if v != 'SUCCESSFUL']
        if bad and not violations_out:
            # E1 runs the same kernel obligations: a disagreement between the two engines is never reported as a pass
            inconclusive.append("Kani does not verify %s although llsym found no counterexample" % bad)
            status = max(status, 2)
        kani_res = dict(results=kani_res, wall_s=round(kt, 1), bounds="full bit-width; adjust: threshold 100, allocated < 2^40, unwind 44")
    # ---- verdict
    for kf, v in known_hits:
        print("KNOWN-FINDING: property=%s %s" % (pid, kf['what']))
    for rp, v in violations_out:
        print("VIOLATION property=%s replay=%s" % (pid, rp))
        print("  %s: %s (inputs %s; native dev: %s, release: %s)" % (v['kind'], v['msg'], v['inputs'], v['native']['dev']['status'], v['native']['release']['status']))
    if violations_out:
        status = 1
    for m in inconclusive:
        print("INCONCLUSIVE: " + m)
    write_evidence(pid, tier, seed, spec, results, ir_files, validated, len(violations_out), inconclusive, time.time() - t_start, known_hits, kani_res)
    tot_paths = sum(d['paths'] for d in results)
    print("%s %s: runs=%d paths=%d queries=%d violations=%d known=%d validated-natively=%d wall=%.1fs -> exit %d" % (
        pid, tier, len(results), tot_paths, sum(d['queries'] for d in results), len(violations_out), len(known_hits), validated,
        time.time() - t_start, status))
    return status


def write_evidence(pid, tier, seed, spec, results, ir_files, validated, nviol, inconclusive, wall, known_hits, kani_res=None):
    fn = {}
    for d in results:
        for k, v in d['fn_hits'].items():
            fn[k] = fn.get(k, 0) + v
    fns = sorted(((lir.demangle(k), v) for k, v in fn.items()), key=lambda x: -x[1])
    repo_fns = [k for k, v in fns if k.startswith('rust_cc') or '<rust_cc' in k or 'rust_cc::' in k]
    paths = sum(d['paths'] for d in results)
    forks = sum(d['forks'] for d in results)
    samples = []
    for d in results:
        for smp in d['samples'][:2]:
            samples.append(dict(entry=d['entry'], features=d['features'], profile=d['profile'], inputs=smp['inputs'],
                                path_condition=smp['path_condition'], ir_steps=smp['steps'], events=smp.get('events', [])[:40]))
    ev = dict(
        property_id=pid, tier=tier, seed=seed, level='model_checking',
        coverage=dict(
            states=max(1, paths + forks),
            transitions=max(1, sum(d['instrs'] for d in results)),
            traces_validated_against_impl=validated,
            samples=samples[:12] or [dict(note="no completed path")],
            evaluations=max(1, paths),
            distinct_nontrivial=max(0, sum(d['ended'].get('returned', 0) for d in results if not d['twin'])),
            rule="one evaluation = one complete execution path of a harness entry point through the IR, distinguished by its decision "
                 "sequence (distinct by construction: depth-first exploration never repeats a decision prefix); non-trivial = the path ran "
                 "to the end of the harness (all oracles executed) rather than being cut by an assumption",
            explanation="states = nodes of the explored execution tree (paths + forks); transitions = IR instructions executed symbolically",
            exhaustive=not inconclusive,
            engine="llsym (forking symbolic execution of rustc-emitted LLVM IR, z3 %s)" % __import__('z3').get_version_string(),
            runs=[dict(entry=d['entry'], features=FEATURES[d['features']] or '(std only)', profile=d['profile'], twin=d['twin'], paths=d['paths'],
                       forks=d['forks'], solver_queries=d['queries'], solver_time_s=round(d['solver_time'], 2), ir_instructions=d['instrs'],
                       obligations_evaluated=d['asserts_checked'], obligations_decided_by_solver=d['asserts_symbolic'],
                       memory_safety_checks=d['mem_checks'], obligation_ids=d['assert_ids'], covers=d['covers'], ended=d['ended'],
                       max_decision_depth=d['max_depth'], wall_s=round(d['wall'], 1), workers=d.get('workers'), incomplete=d['incomplete'],
                       violations=[dict(kind=v['kind'], msg=v['msg'], inputs=v['inputs'], native=v.get('native')) for v in d['violations'][:5]])
                  for d in results],
            solver_queries=sum(d['queries'] for d in results),
            solver_time_s=round(sum(d['solver_time'] for d in results), 2),
            bounds=spec.get('bounds', ''),
            outside_claim=spec.get('outside', ''),
            ir_files=ir_files,
            repo_functions_encoded=repo_fns[:80],
            functions_executed=len(fns),
            inconclusive=inconclusive,
            known_findings_hit=[k['what'] for k, v in known_hits],
            kani_second_opinion=kani_res,
        ),
        assumptions=list(lext.STUBS_DOC) + spec.get('assumptions', []),
        wall_s=round(wall, 1),
        violations=nviol,
    )
    # runs against a deliberately modified /repo (bin/matrix.py) must not overwrite the evidence of the real tree
    evdir = os.environ.get('VERIF_EVIDENCE_DIR') or os.path.join(ROOT, 'evidence')
    os.makedirs(evdir, exist_ok=True)
    json.dump(ev, open(os.path.join(evdir, pid + '.json'), 'w'), indent=1, default=str)


def setup():
    t0 = time.time()
    os.makedirs(BUILD, exist_ok=True)
    for fset in ('fa', 'fawc'):
        for profile in ('dev', 'release'):
            build_ir(fset, profile)
    build_native('fa', 'dev')
    log("[setup] done in %.1fs" % (time.time() - t0))
    return 0


def replay(path):
    r = json.load(open(path))
    for prof in ('dev', 'release'):
        nr = native_run(r['features'], prof, r['entry'], r['inputs'], events=True)
        print(prof, nr['status'], nr['detail'])
    return 0


def main():
    ap = argparse.ArgumentParser()
    ap.add_argument('--property')
    ap.add_argument('--tier', default=os.environ.get('VERIF_TIER', 'quick'))
    ap.add_argument('--seed', type=int, default=int(os.environ.get('VERIF_SEED', '0')))
    ap.add_argument('--setup', action='store_true')
    ap.add_argument('--replay')
    a = ap.parse_args()
    if a.setup:
        sys.exit(setup())
    if a.replay:
        sys.exit(replay(a.replay))
    sys.exit(run_property(a.property, a.tier, a.seed))


if __name__ == '__main__':
    main()
