#!/usr/bin/env python3
"""Confirms a staged seeded change in a scratch worktree of /repo (never in /repo itself):
 applies alone, builds, the existing tests pass with it, the demonstration passes without it and fails with it.
 usage: confirm_seeded.py <prop>/<mN> ...   (reads /verif/seeded/_staging/<prop>/<mN>.diff and <mN>_demo.rs)"""
import sys, os, subprocess, json, shutil, re
WT = '/tmp/confirm_wt'
ST = os.environ.get('STAGING', '/verif/seeded/_staging')

def sh(cmd, cwd=WT, timeout=1800):
    p = subprocess.run(cmd, shell=True, cwd=cwd, stdout=subprocess.PIPE, stderr=subprocess.STDOUT, text=True, timeout=timeout,
                       env=dict(os.environ, CARGO_NET_OFFLINE='true', CARGO_TARGET_DIR='/tmp/confirm_target'))
    return p.returncode, p.stdout

def tests_ok(feat):
    extra = ' --test weak_upgrade_tests' if feat else ''
    rc, out = sh('cargo test --offline %s --lib --test cc --test auto_collect%s 2>&1 | grep -E "^test result|error(\\[|:)"' % (('--features ' + feat) if feat else '', extra))
    res = re.findall(r'test result: (\w+)\. (\d+) passed; (\d+) failed', out)
    ok = bool(res) and all(r[0] == 'ok' for r in res) and 'error' not in out
    return ok, [(r[1], r[2]) for r in res]

def demo(name, variants):
    """returns the first variant (features, release) under which the demo builds, with its pass/fail"""
    for feat, rel in variants:
        rc, out = sh('cargo test --offline %s %s --test %s 2>&1 | tail -40' % ('--release' if rel else '', ('--features ' + feat) if feat else '', name))
        if 'could not compile' in out or 'error[' in out:
            continue
        m = re.findall(r'test result: (\w+)\. (\d+) passed; (\d+) failed', out)
        if m:
            return dict(features=feat, release=rel, passed=all(x[0] == 'ok' for x in m), summary=m)
        # crashed (abort / signal)
        return dict(features=feat, release=rel, passed=False, summary='crashed: ' + out[-200:])
    return None

if not os.path.exists(WT):
    subprocess.run(['git', '-C', '/repo', 'worktree', 'add', '--detach', WT, 'HEAD'], check=True)
results = {}
for arg in sys.argv[1:]:
    prop, m = arg.split('/')
    diff = os.path.join(ST, prop, m + '.diff')
    demo_src = os.path.join(ST, prop, m + '_demo.rs')
    name = 'seeded_%s_%s' % (prop.lower(), m)
    r = dict(id=arg)
    sh('git checkout -q -- . && git clean -fdq tests')
    shutil.copy(demo_src, os.path.join(WT, 'tests', name + '.rs'))
    variants = [('', False), ('weak-ptrs,cleaners', False), ('', True), ('weak-ptrs,cleaners', True)]
    # 1. clean tree: find a configuration where the demo builds and passes
    clean = None
    for v in variants:
        d = demo(name, [v])
        if d and d['passed']:
            clean = d
            # keep looking only if the mutated run also passes here (release-only changes)
            rc, out = sh('git apply %s' % diff)
            if rc != 0:
                r['apply'] = 'FAILED: ' + out[-300:]
                break
            r['apply'] = 'ok'
            mut = demo(name, [v])
            sh('git checkout -q -- src')
            if mut and not mut['passed']:
                r['demo_clean'] = clean
                r['demo_mutated'] = mut
                break
            r['demo_clean'] = clean
            r['demo_mutated'] = mut
    if r.get('apply') == 'ok':
        sh('git apply %s' % diff)
        os.remove(os.path.join(WT, 'tests', name + '.rs'))
        ok1, res1 = tests_ok('')
        ok2, res2 = tests_ok('weak-ptrs,cleaners')
        r['existing_tests_default'] = dict(ok=ok1, results=res1)
        r['existing_tests_weak_cleaners'] = dict(ok=ok2, results=res2)
        sh('git checkout -q -- src')
    r['confirmed'] = bool(r.get('apply') == 'ok' and r.get('demo_clean', {}) and r['demo_clean']['passed'] and r.get('demo_mutated') and not r['demo_mutated']['passed']
                          and r['existing_tests_default']['ok'] and r['existing_tests_weak_cleaners']['ok'])
    results[arg] = r
    print(json.dumps(r))
    sys.stdout.flush()
sh('git checkout -q -- . && git clean -fdq tests')
json.dump(results, open('/tmp/confirm_results_%d.json' % os.getpid(), 'w'), indent=1)
