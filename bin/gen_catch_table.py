#!/usr/bin/env python3
"""Regenerates section 7.4 of DESIGN.md (which check catches which seeded change) from seeded/*/meta.json."""
import json, os, re
ROOT = '/verif'
rows = []
for d in sorted(os.listdir(ROOT + '/seeded')):
    p = '%s/seeded/%s/meta.json' % (ROOT, d)
    if not os.path.exists(p):
        continue
    m = json.load(open(p))
    det = m.get('detected_by') or {}
    runs = det.get('checks_run', {})
    caught = det.get('caught_by', [])
    first = ''
    for c in caught:
        f = runs[c].get('first') or []
        if f:
            first = f[0].split(' (inputs')[0][:70]
            break
    rows.append((m['id'], m['breaks_property'], ', '.join(caught) if caught else '**not caught**', ', '.join(sorted(runs)), first, m['needs_to_manifest'][:150]))
out = ["### 7.4 Which check catches which seeded change\n",
       "Every row is a change produced by an independent sub-agent from the property text alone, confirmed by me in a scratch worktree (applies to /repo's HEAD, "
       "existing tests pass with default features and with `weak-ptrs,cleaners`, its demonstration passes without and fails with the change) and kept under "
       "`/verif/seeded/<id>/`. 'checks run' are the quick checks that were run against /repo with the change applied (`bin/matrix.py`; the change was reverted "
       "afterwards); 'caught by' lists those that exited 1 with a natively reproduced counterexample.\n",
       "| seeded change | breaks | caught by | checks run | first violated obligation | what it needs |", "|---|---|---|---|---|---|"]
for r in rows:
    out.append("| %s | %s | %s | %s | %s | %s |" % r)
n = len(rows)
c = sum(1 for r in rows if not r[2].startswith('**'))
out.append("\n%d of %d kept seeded changes are caught by the quick check of at least one property they break.\n" % (c, n))
txt = '\n'.join(out) + '\n'
p = ROOT + '/DESIGN.md'
s = open(p).read()
a = s.find('### 7.4 Which check catches which seeded change')
if a >= 0:
    import re as _re
    m = _re.search(r'\n### 7\.\d', s[a + 5:])
    s = s[:a] + txt + ('\n' + s[a + 5 + m.start() + 1:] if m else '')
else:
    s += '\n' + txt
open(p, 'w').write(s)
print(c, n)
