#!/usr/bin/env python3-vt
"""Writes /verif/MANIFEST.json from bin/props.py."""
import json, os, sys
ROOT = os.path.dirname(os.path.dirname(os.path.abspath(__file__)))
sys.path.insert(0, os.path.join(ROOT, 'bin'))
import props

TEXT = {
    'C01': "Bounded symbolic execution of the real compiled code: every path of the graph / finalizer harnesses within the bounds is executed over rustc's LLVM IR with the engine's use-after-free / double-free obligations and the shadow-model oracle (reachable => undropped, intact, exact count) discharged by z3 for all phantom counts. Right level because the property is a safety invariant over all small histories and the defects it guards against (stale counters, wrong marks) need specific multi-step histories, not large ones.",
    'C02': "Same engine; completeness oracle after collect-until-quiescent: every unreachable, unpinned object dropped and allocated_bytes() equal to the model's live boxes, on every path (shape, buffering history, release mask, finalizer behaviours symbolic).",
    'C03': "Engine-level obligations on every path: each dealloc must hit a live heap object with exactly the allocated (size, align); drop counters <= 1; allocation table empty at the end of panic-free runs. Payload layouts are a generated grid of monomorphic instantiations (types cannot be solver variables).",
    'C04': "strong_count() compared with the shadow model after every operation for all phantom counts (z3 decides the arithmetic for 0..16000 at once); Rc-equivalence oracle (model count 0 => already dropped) after every top-level operation; after a caught panic only '>='.",
    'C05': "Finalizer oracles evaluated inside the callbacks on every path: finalized only after having been unreachable, at most once unless re-armed, before its own drop, nothing reachable from it dropped, objects born in a finalizer never finalized, feature off => never called.",
    'C06': "Resurrection by clone and by Weak upgrade into globals or into the object's own fields, on both reclamation paths, followed by the later life of the resurrected objects; termination is an obligation (instruction and collect-call bounds).",
    'C07': "The crash index is a solver variable compared with the running invocation counter, so every crash point of every callback kind inside the bound is a path through the real unwinding code (landing pads, drop guards) as compiled by rustc; the continuation keeps all safety oracles running.",
    'C08': "Upgrade results compared with the model at top level after every operation and inside finalizers/destructors of the same garbage set, for symbolic weak-slot targets and callback behaviours.",
    'C09': "weak_count / strong_count queries on Cc and Weak compared with the model for all phantom weak counts (solver variable); side-record allocation tracked by the engine's allocation table (freed exactly once, with the last of box and Weaks).",
    'C10': "Per-action invocation counters checked after every step and from a field dropped right after the Cleaner; action kinds, owners and the interleaving are symbolic.",
    'C11': "Introspection counters compared, after every operation, with the engine-independent model: bytes of live boxes, executions, and a walk of the buffer through the read-only hook; the exact buffered set is predicted for finalizer-free programs.",
    'C12': "is_tracing() sampled in every callback of every nesting in the bound; nested collect/allocation requests must leave executions_count() unchanged inside a collection; try_unwrap / finalize_again probed from finalizers and destructors.",
    'C13': "try_unwrap's result decided for all strong counts (phantom count is a solver variable): Ok iff unique, with full before/after comparison of counts, buffer membership, allocation table and Weak behaviour; Err returns the same pointer with an unchanged snapshot.",
    'C14': "All closure behaviours x collector states in the bound; a value of T being touched before it was constructed is an obligation both as a harness counter and as the engine's undefined-value check on the real drop glue.",
    'C15': "Kernel harnesses execute the real should_collect/adjust on an arbitrary configuration: u64 inputs and the f64 percent are solver variables (z3 bit-vectors + FloatingPoint), one step from any valid threshold = induction over workloads of any length; wiring harness compares every Cc::new with the kernel's verdict.",
    'C16': "The count is a solver variable: z3 finds the boundary value itself; panics are real unwinding; afterwards the object is driven through a cycle and a collection. Counter-word kernels are checked from arbitrary 16-bit words.",
    'C17': "One harness per container instantiation (generated: types are compile-time), each run through the real collector: per-position tracing-counter deltas read through the snapshot hook, reclamation of a cycle routed through a symbolic position, survival of a live leaf.",
    'C19': "Only the thread-teardown clause: the registered thread-local destructors are executed (real std lazy-storage code from the IR) after the entry returns, for both registration orders and symbolic contents; memory obligations and harness checks run during teardown. The independence clause over OS-thread interleavings is not decided by this technique.",
    'C20': "Address clauses on the layout grid with rustc's own misalignment checks in the dev IR; forwarding impls on fully symbolic operands, floats through z3's FloatingPoint theory (the solver produced the NaN counterexample for the seeded ptr_eq shortcut).",
}
NOTE = ("Trusted base: the llsym engine (own IR interpreter; validated on every run by replaying sampled paths and every must-fail twin's counterexample "
        "against the natively compiled harness and comparing event traces), z3, rustc's IR emission (--emit=llvm-ir with codegen-units=1 of the same "
        "crate graph the native build uses), the environment stubs listed in the evidence file. Bounds as stated in the evidence; nothing outside them is claimed.")

checks = []
for pid in sorted(props.PROPS):
    checks.append(dict(
        property_id=pid,
        quick_cmd="python3-vt bin/check.py --property %s --tier quick" % pid,
        thorough_cmd="python3-vt bin/check.py --property %s --tier thorough" % pid,
        evidence_file="/verif/evidence/%s.json" % pid,
        replay_cmd_template="python3-vt bin/check.py --replay {path}",
        engine="llsym",
        level_claimed=dict(category="model_checking", text=TEXT[pid], design_ref="DESIGN.md §4 " + pid),
        level_note=NOTE,
        technique="bounded symbolic execution of rustc-emitted LLVM IR (own engine) decided by z3; counterexamples replayed natively",
    ))
man = dict(
    version=1,
    setup_cmd="python3-vt bin/check.py --setup",
    hooks=dict(
        guard="--cfg rust_cc_verif",
        enable="RUSTFLAGS='--cfg rust_cc_verif' set by bin/check.py when it builds /verif/harness (path dependency on /repo)",
        baseline_off_cmd="cd /repo && cargo test --workspace --no-fail-fast --offline",
        source_commits=["4df5c7d", "8a5b239"],
        add_only=True,
    ),
    engines=[
        dict(name="llsym", path="/verif/llsym", serves_properties=sorted(props.PROPS),
             kind_free_text="forking symbolic executor for rustc-emitted LLVM IR (invoke/landingpad/resume included), z3 back end, sharded over 16 processes"),
        dict(name="kani", path="/verif/kani", serves_properties=["C15", "C16"],
             kind_free_text="Kani 0.68 / CBMC proof harnesses for the heap-free counter and threshold kernels (second opinion, thorough tier)"),
    ],
    checks=checks,
    not_applicable=[
        dict(property_id="C18", reason="quantifies over type definitions processed by a proc-macro inside rustc and over rustc diagnostics; neither can be a solver variable or be executed symbolically from the crate's IR (DESIGN.md C18)"),
    ],
    notes="C19: only the thread-teardown clause is decided (see level text); the OS-thread independence clause is outside this technique. "
          "Three genuine defects were found and repaired by 'fix:' commits in /repo (see known_findings.json).",
)
json.dump(man, open(os.path.join(ROOT, 'MANIFEST.json'), 'w'), indent=1)
print("wrote MANIFEST.json with %d checks" % len(checks))
