#!/usr/bin/env python3
"""Turns a confirmed staged change into /verif/seeded/<id>/ (patch.diff, demo.rs, meta.json).
 usage: keep_seeded.py <confirm_results.json> <prop>/<mN>=<new id> "<what it needs to manifest>" [round note]"""
import sys, os, json, shutil
ST = os.environ.get('STAGING', '/verif/seeded/_staging')
res = json.load(open(sys.argv[1]))
key, sid = sys.argv[2].split('=')
needs = sys.argv[3]
note = sys.argv[4] if len(sys.argv) > 4 else 'round 3: asked for changes that need something specific to manifest'
r = res[key]
assert r['confirmed'], r
prop, m = key.split('/')
d = '/verif/seeded/' + sid
os.makedirs(d, exist_ok=True)
shutil.copy(os.path.join(ST, prop, m + '.diff'), d + '/patch.diff')
shutil.copy(os.path.join(ST, prop, m + '_demo.rs'), d + '/demo.rs')
meta = {
    "id": sid, "breaks_property": prop,
    "produced_by": "independent sub-agent (%s) given only the property text and a scratch worktree" % note,
    "needs_to_manifest": needs,
    "confirmed_in_scratch_worktree": {
        "applies_alone_to_repo_head": True,
        "existing_tests_with_change": {"default_features": r['existing_tests_default'], "weak_ptrs_cleaners": r['existing_tests_weak_cleaners'],
                                       "command": "cargo test --offline [--features weak-ptrs,cleaners] --lib --test cc --test auto_collect [--test weak_upgrade_tests]"},
        "demo_command": "cargo test --offline [--release] [--features ...] --test <demo>",
        "demo_without_change": r['demo_clean'], "demo_with_change": r['demo_mutated']}}
json.dump(meta, open(d + '/meta.json', 'w'), indent=1)
print("kept", d)
