#!/usr/bin/env python3
"""Runs, for every kept seeded change, the quick check of the property it breaks (plus any extra properties given as
<id>=Cxx,Cyy) against /repo with the change applied; always reverts; records the outcome in seeded/<id>/meta.json and seeded/MATRIX.json."""
import sys, os, json, subprocess, time, re
ROOT = '/verif'
ids = sorted(d for d in os.listdir(ROOT + "/seeded") if re.match(r"^C\d\d-(r[23])?m\d$", d))
only = [a for a in sys.argv[1:] if '=' not in a]
extra = dict(a.split('=') for a in sys.argv[1:] if '=' in a)
if only:
    ids = [i for i in ids if i in only]
mp = ROOT + '/seeded/MATRIX.json'
matrix = json.load(open(mp)) if os.path.exists(mp) else {}
for sid in ids:
    meta = json.load(open('%s/seeded/%s/meta.json' % (ROOT, sid)))
    props = [meta['breaks_property']] + [p for p in extra.get(sid, '').split(',') if p]
    st = subprocess.run(['git', '-C', '/repo', 'status', '--porcelain', '--untracked-files=no'], capture_output=True, text=True).stdout.strip()
    if st:
        print("refusing: /repo dirty"); sys.exit(3)
    r = subprocess.run(['git', '-C', '/repo', 'apply', '%s/seeded/%s/patch.diff' % (ROOT, sid)], capture_output=True, text=True)
    if r.returncode != 0:
        print(sid, "does not apply:", r.stderr[:200]); continue
    try:
        for p in props:
            t0 = time.time()
            pr = subprocess.run(['python3-vt', ROOT + '/bin/check.py', '--property', p, '--tier', 'quick'], capture_output=True, text=True, cwd=ROOT, env=dict(os.environ, VERIF_STOP_EARLY='1', VERIF_EVIDENCE_DIR='/verif/.build/evidence-seeded'))
            viol = [l for l in pr.stdout.splitlines() if l.startswith('VIOLATION')]
            det = [l.strip() for l in pr.stdout.splitlines() if l.startswith('  ') and ':' in l][:3]
            inc = [l for l in pr.stdout.splitlines() if l.startswith('INCONCLUSIVE')][:3]
            res = dict(exit=pr.returncode, violations=len(viol), first=det[:2], inconclusive=inc, wall_s=round(time.time() - t0, 1))
            matrix.setdefault(sid, {})[p] = res
            print(sid, p, res['exit'], res['violations'], (det[0][:140] if det else ''), inc[:1], "%.0fs" % res['wall_s'])
            sys.stdout.flush()
    finally:
        subprocess.run(['git', '-C', '/repo', 'checkout', '--', '.'])
    caught = [p for p, v in matrix[sid].items() if v['exit'] == 1]
    meta['detected_by'] = dict(checks_run={p: dict(exit=v['exit'], violations=v['violations'], first=v['first']) for p, v in matrix[sid].items()},
                               caught_by=caught)
    json.dump(meta, open('%s/seeded/%s/meta.json' % (ROOT, sid), 'w'), indent=1)
    json.dump(matrix, open(mp, 'w'), indent=1)
# evidence files were rewritten by runs against modified trees: they must be regenerated on the clean tree before committing
print("NOTE: re-run the affected checks on the clean tree to regenerate evidence/")
