#!/usr/bin/env python3-vt
"""Apply a seeded change to /repo, run harness entries or property checks against it, always revert.
   mutant.py <diff> entry:<entry>[:<fset>[:<profile>]] ... | prop:<Cxx> ..."""
import sys, os, subprocess
ROOT = os.path.dirname(os.path.dirname(os.path.abspath(__file__)))
diff = os.path.abspath(sys.argv[1])
st = subprocess.run(['git', '-C', '/repo', 'status', '--porcelain', '--untracked-files=no'], capture_output=True, text=True).stdout.strip()
if st:
    print("refusing: /repo has local modifications:\n" + st); sys.exit(3)
r = subprocess.run(['git', '-C', '/repo', 'apply', diff], capture_output=True, text=True)
if r.returncode != 0:
    r = subprocess.run(['patch', '-d', '/repo', '-p1', '-i', diff], capture_output=True, text=True)
    if r.returncode != 0:
        print("cannot apply", r.stdout, r.stderr)
        subprocess.run(['git', '-C', '/repo', 'checkout', '--', '.'])
        subprocess.run('find /repo -name "*.orig" -o -name "*.rej" | xargs rm -f', shell=True)
        sys.exit(3)
rc = 0
try:
    for a in sys.argv[2:]:
        parts = a.split(':')
        if parts[0] == 'entry':
            cmd = [os.path.join(ROOT, 'bin', 'one.py'), parts[1]] + parts[2:]
            env = dict(os.environ, NATIVE='1')
        else:
            cmd = [os.path.join(ROOT, 'bin', 'check.py'), '--property', parts[1], '--tier', parts[2] if len(parts) > 2 else 'quick']
            env = dict(os.environ)
        p = subprocess.run(cmd, env=env, capture_output=True, text=True)
        out = p.stdout.strip().splitlines()
        print("== %s -> exit %d" % (a, p.returncode))
        for l in out[-14:]:
            print("   " + l)
        if p.returncode not in (0, 1):
            print(p.stderr[-1500:])
finally:
    subprocess.run(['git', '-C', '/repo', 'checkout', '--', '.'])
    subprocess.run('find /repo/src -name "*.orig" -o -name "*.rej" | xargs rm -f', shell=True)
    st = subprocess.run(['git', '-C', '/repo', 'status', '--porcelain'], capture_output=True, text=True).stdout.strip()
    if st:
        print("WARNING /repo not clean after revert:\n" + st)
