#!/usr/bin/env python3-vt
"""Developer helper: run one harness entry (no evidence): one.py <entry> [features] [profile]"""
import sys, os, time, json
sys.path.insert(0, os.path.dirname(os.path.abspath(__file__)))
import check
from llsym import run as lrun
from llsym.engine import Unsupported
entry = sys.argv[1]
fset = sys.argv[2] if len(sys.argv) > 2 else 'fa'
prof = sys.argv[3] if len(sys.argv) > 3 else 'dev'
mod, _h = check.load_ir(fset, prof, bool(os.environ.get('LTO')))
jobs = int(os.environ.get('VERIF_JOBS', '16'))
try:
    d = lrun.explore_entry(mod, entry, jobs=jobs, verbose=bool(os.environ.get('V')), max_violations=int(os.environ.get('MAXV', '3')),
                           tls_teardown=bool(os.environ.get('TLS')))
except Unsupported as ex:
    print("UNSUPPORTED", ex); sys.exit(2)
print("entry=%s paths=%d forks=%d queries=%d solver=%.1fs instrs=%d wall=%.1fs" % (entry, d['paths'], d['forks'], d['queries'], d['solver_time'], d['instrs'], d['wall']))
print("ended:", d['ended'], "covers:", d['covers'], "incomplete:", d['incomplete'], "assert ids:", len(d['assert_ids']))
seen = set()
for v in d['violations']:
    key = (v['kind'], v['msg'])
    if key in seen: continue
    seen.add(key)
    print("VIOLATION", v['kind'], v['msg'], v['inputs'])
    print("   stack:", v['stack'][-4:])
    if os.environ.get('NATIVE'):
        for p in ('dev', 'release'):
            nr = check.native_run(fset, p, entry, v['inputs'])
            print("   native", p, nr['status'], nr['detail'])
for er in d.get('errors', []): print("ERROR", er)
