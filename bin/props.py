"""Property -> runs table: which harness entry points, feature sets and IR profiles decide each property,
with the bounds stated for the evidence files.

Feature sets (harness features -> rust-cc features, always with `std`):
  fa = finalization,auto-collect (rust-cc's default minus derive)   faw = + weak-ptrs   fawc = + cleaners
  none = neither finalization nor auto-collect                      w = weak-ptrs only  a = auto-collect only
IR profiles: dev = opt-level 1, debug assertions and overflow checks on; release = opt-level 3, both off."""

Q = ('quick', 'thorough')
T = ('thorough',)


def R(entry, features='fa', profile='dev', tiers=Q, **kw):
    d = dict(entry=entry, features=features, profile=profile, tiers=tiers)
    d.update(kw)
    return d


def both(entry, features='fa', tiers=Q, **kw):
    """dev-like and release-like IR of the same entry"""
    return [R(entry, features, 'dev', tiers, **kw), R(entry, features, 'release', tiers, **kw)]


def twin(entry, features='fa'):
    return [R(entry, features, 'dev', Q, twin=True)]


GRAPH_BOUNDS = ("object graphs of N<=3 nodes (N<=2 where every slot target, buffering history, release mask, phantom count and a "
                "second-round mutation are all symbolic at once), symbolic programs of K=3 (thorough: 4 and 5) arbitrary API steps on 3 objects with every "
                "oracle after every step, 1 traced slot per node (2 in the thorough tier) plus an untraced owning slot "
                "(thorough), at most two collect-until-quiescent phases per path; phantom strong counts 0..16000 are solver variables")
OUTSIDE_COMMON = "larger graphs and longer histories than the bounds; the nightly/no-std configuration; allocation failure; OS threads"

TRACE_ENTRIES = (['h_trace_tuple%d' % i for i in range(1, 13)] + ['h_trace_array%d' % i for i in (0, 1, 2, 3, 32)] +
                 ['h_trace_vec', 'h_trace_boxed_slice', 'h_trace_option', 'h_trace_result', 'h_trace_box', 'h_trace_manuallydrop',
                  'h_trace_assertunwindsafe', 'h_trace_refcell', 'h_trace_vec_option', 'h_trace_option_box_tuple', 'h_trace_refcell_vec',
                  'h_trace_tuple_vec_option', 'h_trace_array_option', 'h_trace_vec_manuallydrop', 'h_trace_result_vec', 'h_trace_vec_long',
                  'h_trace_manuallydrop_cycle'])

PROPS = {}

PROPS['C01'] = dict(
    bounds=GRAPH_BOUNDS, outside=OUTSIDE_COMMON,
    runs=both('h_graph_n2', covers=[1, 2]) + [R('h_graph_n2', 'none', covers=[1, 2]), R('h_graph_n2', 'faw', 'release', T, covers=[1, 2]), R('h_weak_cb_n2', 'faw', covers=[1, 2]), R('h_weak_helper', 'faw', covers=[1, 2]), R('h_cyclic', 'faw', 'release', covers=[1, 2, 3])]
         + [R('h_graph_n3', covers=[1, 2]), R('h_graph_n3', 'fa', 'release', T, covers=[1, 2])]
         + [R('h_fin_n3', covers=[1]), R('h_panic_n4_q', covers=[1, 11]), R('h_panic_n3', 'fa', 'release', covers=[1])]
         + both('h_graph_n3_untraced', tiers=T, covers=[1]) + [R('h_graph_n3_s2', tiers=T, covers=[1])]
         + [R('h_prog_k3', covers=[1]), R('h_prog_k4', tiers=T, covers=[1]), R('h_prog_k4', 'fa', 'release', T, covers=[1]), R('h_prog_k5', tiers=T, covers=[1])]
         + twin('h_graph_twin'),
)
PROPS['C02'] = dict(
    bounds=GRAPH_BOUNDS + "; panic-free programs; quiescence must be reached within 3-4 collect_cycles() calls (obligation x23)",
    outside=OUTSIDE_COMMON,
    runs=[R('h_graph_n3', 'fa', 'release', covers=[1, 2]), R('h_graph_n2', 'none', 'release', covers=[1, 2]), R('h_graph_n2', 'faw', covers=[1, 2])]
         + [R('h_fin_n2', covers=[1, 2]), R('h_fin_weak_n2', 'faw', covers=[1]), R('h_chain12', covers=[1]), R('h_chain12', 'fa', 'release', covers=[1]), R('h_prog_k3', 'fa', 'release', covers=[1]), R('h_prog_k4', 'none', tiers=T, covers=[1])]
         + [R('h_fin_n3_stash', tiers=T, covers=[1]), R('h_fin_n2', 'fa', 'release', T, covers=[1, 2]), R('h_graph_n3_untraced', tiers=T, covers=[1])]
         + twin('h_fin_twin'),
)
PROPS['C03'] = dict(
    bounds="payload grid: sizes {0,1,2,8,24,100/104,128,4096} x alignments {1,2,8,64,4096} (24 instantiations, enumerated), each through 6 symbolic "
           "release orders (reference counting, cycle + collector, try_unwrap, Weak outliving the box, Weak released first, new_cyclic); "
           "drop-once / free-once / right-layout are engine-level obligations on every path of the graph and weak families too",
    outside="sizes above 4 KiB; allocation failure; " + OUTSIDE_COMMON,
    runs=both('h_layout_grid', 'faw', covers=[1]) + [R('h_layout_grid', 'none', covers=[1]), R('h_layout_zst', 'faw', covers=[1])]
         + [R('h_graph_n2', 'fa', 'release', covers=[1, 2]), R('h_weak_cb_n2', 'faw', covers=[1, 2]), R('h_unwrap_weak', 'faw', covers=[1, 2]), R('h_nest_n2', covers=[1])]
         + [R('h_cyclic', 'faw', covers=[1, 2, 3]), R('h_trace_manuallydrop_cycle', covers=[1]), R('h_layout_small', 'faw', covers=[1]), R('h_layout_small', 'fa', 'release', covers=[1])]
         + twin('h_layout_twin', 'faw'),
)
PROPS['C04'] = dict(
    bounds=GRAPH_BOUNDS + "; strong_count() compared with the model count after every operation for ALL phantom counts (one solver variable per object)",
    outside=OUTSIDE_COMMON,
    runs=both('h_graph_n2', covers=[1, 2]) + [R('h_graph_n3', 'fa', 'release', covers=[1, 2])]
         + [R('h_sat_strong', 'faw', covers=[1, 2]), R('h_panic_n2', covers=[1]), R('h_unwrap', covers=[1, 2]), R('h_nest_n2', covers=[1]), R('h_panic_n3', covers=[1]), R('h_prog_k3', covers=[1])]
         + [R('h_panic_n3_hist', tiers=T, covers=[1]), R('h_prog_k4', tiers=T, covers=[1]), R('h_prog_k4', 'fa', 'release', T, covers=[1])]
         + twin('h_graph_twin'),
)
PROPS['C05'] = dict(
    bounds="graphs of N<=3 nodes, finalizer behaviour per node symbolic among {none, drop a field, resurrect self, resurrect neighbour, create an object, "
           "request a collection, release a program-held pointer} (+ upgrade a Weak into a global / into an own field with weak-ptrs); both the "
           "reference-count path and the collector path; later history of resurrected objects incl. finalize_again",
    outside=OUTSIDE_COMMON,
    runs=[R('h_fin_n2', covers=[1, 2]), R('h_fin_n3', 'fa', 'release', covers=[1]), R('h_fin_weak_n2', 'faw', covers=[1])]
         + [R('h_graph_n2', 'none', covers=[1, 2]), R('h_nest_n2', covers=[1]), R('h_panic_fin_n2', covers=[1])]  # finalization off: finalize is never called
         + [R('h_fin_n3_stash', tiers=T, covers=[1]), R('h_fin_weak_n3', 'faw', tiers=T, covers=[1]), R('h_fin_n2', 'fa', 'release', T, covers=[1, 2])]
         + twin('h_fin_twin'),
)
PROPS['C06'] = dict(
    bounds=PROPS['C05']['bounds'] + "; termination: a path exceeding 3M IR instructions or 4 collect calls without quiescence is a violation",
    outside=OUTSIDE_COMMON + "; chains of more than 4 finalizer-released objects",
    runs=[R('h_fin_n3_stash', covers=[1]), R('h_fin_n2', covers=[1, 2]), R('h_fin_weak_n2', 'faw', covers=[1]), R('h_chain12', covers=[1]), R('h_weak_helper', 'faw', covers=[1, 2])]
         + [R('h_fin_n2', 'fa', 'release', T, covers=[1, 2]), R('h_fin_n3', tiers=T, covers=[1]), R('h_fin_weak_n3', 'faw', tiers=T, covers=[1]), R('h_fin_weak_n2', 'faw', 'release', T, covers=[1])]
         + twin('h_fin_twin'),
)
PROPS['C07'] = dict(
    bounds="graphs of N<=3 nodes; callback kind in {trace, finalize, drop} symbolic, crash index k in 1..8 a solver variable compared against the "
           "running invocation counter (every crash point is a path); panics during the release (reference-count) phase and during the collection; "
           "continuation: a further symbolic operation, collections, all safety oracles; new_cyclic closure panics and cleaning-action panics in their families",
    outside="panics while already unwinding (abort by definition), panics raised by the crate's own guards; " + OUTSIDE_COMMON,
    runs=both('h_panic_n3', covers=[1, 11, 12, 13]) + [R('h_panic_n2', covers=[1]), R('h_panic_n2', 'none', covers=[1]), R('h_cyclic', 'faw', covers=[1, 2, 3])]
         + [R('h_panic_n3', 'faw', 'release', covers=[1]), R('h_panic_n4_q', covers=[1, 11]), R('h_panic_n4_trace', tiers=T, covers=[1])]
         + [R('h_panic_n2_two', tiers=T, covers=[1]), R('h_panic_n3_hist', tiers=T, covers=[1]), R('h_clean_panic', 'fawc', tiers=Q, covers=[1])]
         + twin('h_panic_twin'),
)
PROPS['C08'] = dict(
    bounds="N<=2 nodes (ring of 3 in the thorough tier): program-held Weaks with symbolic life cycles; weak slots inside nodes pointing to self / next / "
           "previous; upgrades attempted at top level after every operation and from inside finalizers and destructors (symbolic per node)",
    outside=OUTSIDE_COMMON,
    runs=[R('h_weak_prog_n2', 'faw', covers=[1, 2]), R('h_weak_cb_n2', 'faw', covers=[1, 2]), R('h_weak_cb_n2', 'faw', 'release', T, covers=[1, 2])]
         + [R('h_weak_cb_n2', 'w', covers=[1]), R('h_unwrap_weak', 'faw', covers=[1, 2]), R('h_clean_n2', 'fawc', tiers=T, covers=[1])]
         + [R('h_weak_helper', 'faw', covers=[1, 2]), R('h_weak_helper', 'faw', 'release', covers=[1, 2]), R('h_sat_weak', 'faw', 'release', covers=[1, 2]), R('h_nest_n2', 'faw', covers=[1, 3]), R('h_prog_weak_k3', 'faw', covers=[1])]
         + [R('h_prog_weak_k4', 'faw', tiers=T, covers=[1]), R('h_weak_cb_ring3', 'faw', tiers=T, covers=[1, 2])]
         + twin('h_weak_twin', 'faw'),
)
PROPS['C09'] = dict(
    bounds="N<=2 nodes; 0..2 program-held Weaks per node plus phantom weak counts 0..32000 (solver variables); release of the value by reference "
           "counting, by the collector and by try_unwrap; re-downgrade after the weak count returned to zero; the side record's allocation is tracked",
    outside=OUTSIDE_COMMON,
    runs=both('h_weak_prog_n2', 'faw', covers=[1, 2]) + [R('h_weak_prog_n1', 'faw', covers=[1, 2]), R('h_sat_weak', 'faw', covers=[1, 2])]
         + [R('h_unwrap_weak', 'faw', covers=[1, 2]), R('h_weak_prog_n2', 'w', covers=[1, 2])] + both('h_cyclic', 'faw', covers=[1, 2, 3])
         + [R('h_sat_weak', 'faw', 'release', covers=[1, 2]), R('h_nest_n2', 'faw', covers=[1, 3]), R('h_prog_weak_k3', 'faw', covers=[1]), R('h_prog_weak_k4', 'faw', tiers=T, covers=[1])]
         + twin('h_weak_twin', 'faw'),
)
PROPS['C10'] = dict(
    bounds="2 owner nodes, 2 actions of any of 5 kinds (no-op, drop a captured Cc, allocate, upgrade a Weak to owner/neighbour, clean() another "
           "cleanable) with symbolic owners, or 3 actions of kinds {no-op, clean-other}; symbolic interleaving of clean / Cleanable drop / owner release "
           "by reference counting or in a cycle; a field dropped right after the Cleaner observes 'exactly once by the time the Cleaner's drop returns'",
    outside="more than 3 actions per scenario (slot-map growth beyond its initial capacity), slot-map key version wrap-around; " + OUTSIDE_COMMON,
    assumptions=["liballoc's RawVecInner::{try_allocate_in, grow_amortized, deallocate} (precompiled, not in the IR) are modelled by the engine"],
    runs=[R('h_clean_n2', 'fawc', covers=[1]), R('h_clean_n2_a3', 'fawc', covers=[1]), R('h_clean_n2_a3', 'fawc', 'release', T, covers=[1])]
         + both('h_clean_helper', 'fawc', covers=[1])
         + [R('h_clean_n2', 'fawc', 'release', T, covers=[1])]
         + twin('h_clean_twin', 'fawc'),
)
PROPS['C11'] = dict(
    bounds="after every operation of the graph / try_unwrap / nesting families: allocated_bytes() against the model's live boxes, the buffer walked "
           "through the hook (cached size == length, links, marks, members are distinct live objects), executions_count() deltas; the exact buffered "
           "set is predicted for finalizer-free programs of N<=3 nodes",
    outside=OUTSIDE_COMMON,
    runs=both('h_buffer_n3', covers=[1]) + [R('h_buffer_n3', 'none', covers=[1]), R('h_unwrap', covers=[1, 2]), R('h_nest_n2', covers=[1])]
         + [R('h_fin_n2', covers=[1, 2]), R('h_panic_n3', covers=[1]), R('h_cyclic', 'faw', covers=[1, 2, 3]), R('h_prog_k3', covers=[1]), R('h_prog_k3', 'none', covers=[1]), R('h_prog_k4', tiers=T, covers=[1]), R('h_prog_k4', 'fa', 'release', T, covers=[1])]
         + twin('h_graph_twin'),
)
PROPS['C12'] = dict(
    bounds="N=2 nodes; per node the finalizer in {none, collect_cycles(), allocate, probe} and the destructor in {none, collect_cycles(), temporary Cc, probe} "
           "(probe = try_unwrap and finalize_again on a unique program-held Cc); objects die by plain drop, by an explicit collection or by a collection "
           "triggered by Cc::new; is_tracing() sampled in every callback",
    outside=OUTSIDE_COMMON,
    runs=[R('h_nest_n2', covers=[1, 3]), R('h_nest_n2', 'fa', 'release', T, covers=[1, 3])] + [R('h_fin_n2', covers=[1, 2]), R('h_nest_n2', 'faw', covers=[1]), R('h_panic_n3', covers=[1]), R('h_nest_n2_full', tiers=T, covers=[1, 3])]
         + twin('h_nest_twin'),
)
PROPS['C13'] = dict(
    bounds="the unwrapped object optionally owns / is owned by a second object; buffered or not; second real pointer or not; phantom count 0..16000 a "
           "solver variable (uniqueness decided for all counts); 0..2 Weaks (weak-ptrs); layouts through the C03 grid",
    outside=OUTSIDE_COMMON,
    runs=both('h_unwrap', covers=[1, 2]) + both('h_unwrap_weak', 'faw', covers=[1, 2]) + [R('h_unwrap', 'none', covers=[1, 2]), R('h_layout_grid', 'faw', covers=[1])]
         + [R('h_nest_n2', covers=[1, 3]), R('h_layout_small', 'faw', covers=[1]), R('h_panic_n3', covers=[1])]
         + twin('h_unwrap_twin'),
)
PROPS['C14'] = dict(
    bounds="closure behaviour in {plain, save a Weak clone, keep a Weak in the value, allocate, collect_cycles(), save two clones and panic}; collector state in "
           "{idle, garbage 2-cycle buffered, garbage buffered and its first trace/finalize/drop callback panics}; automatic collection due or disabled",
    outside=OUTSIDE_COMMON,
    runs=both('h_cyclic', 'faw', covers=[1, 2, 3]) + both('h_cyclic_in_drop', 'faw', covers=[1]) + [R('h_cyclic', 'fawc', covers=[1, 2, 3]), R('h_layout_grid', 'faw', covers=[1])] + both('h_sat_weak', 'faw', covers=[1, 2])
         + twin('h_cyclic_twin', 'faw'),
)
PROPS['C15'] = dict(
    bounds="trigger kernel: all five inputs full-width solver variables; threshold kernel: one adjust() step from threshold 100*2^j (j<=12 quick, j<=40 thorough, "
           "decided at its source), allocated bytes a 64-bit solver variable < 2^62, adjustment percent an f64 solver variable in [0,1] (z3 FloatingPoint); "
           "wiring: 3 (thorough: 4) allocations of two size classes with configuration changes at symbolic points, percent in {0, 0.5, 1}",
    outside="thresholds above 100*2^40 in the adjust kernel (the full range j<=57 did not finish within the thorough budget: z3's FloatingPoint queries on "
            "large constants dominate); allocated bytes >= 2^62 (the doubling loop overflows usize there - stated, not claimed); 32-bit targets",
    runs=[R('h_policy_trigger', covers=[1]), R('h_policy_trigger', 'fa', 'release', covers=[1]), R('h_policy_adjust_small', covers=[1]),
          R('h_policy_wiring', covers=[1, 2, 3]), R('h_policy_wiring', 'fa', 'release', covers=[1, 2, 3]), R('h_nest_n2', covers=[1]), R('h_chain12', covers=[1])]
         + [R('h_policy_adjust_mid', tiers=T, covers=[1]), R('h_policy_adjust_hi1', tiers=T, covers=[1]), R('h_policy_adjust_small', 'fa', 'release', T, covers=[1]), R('h_policy_wiring4', tiers=T, covers=[1])]
         + twin('h_policy_twin'),
    budget_s=dict(quick=900, thorough=5400),
    kani=['trigger_policy', 'adjust_from_default_threshold'],
)
PROPS['C16'] = dict(
    bounds="strong count 1+n with n a solver variable in 0..16381, one more pointer by clone or upgrade, object finalized or not, with or without a side record; "
           "weak count 1+m with m in 0..32766, one more Weak by downgrade or clone, value alive or gone; counter-word kernels from arbitrary 16-bit words",
    outside=OUTSIDE_COMMON,
    runs=both('h_sat_strong', 'faw', covers=[1, 2]) + both('h_sat_weak', 'faw', covers=[1, 2]) + both('h_counter_kernel', 'faw', covers=[1])
         + both('h_weak_kernel', 'faw', covers=[1]) + [R('h_sat_strong', 'none', covers=[1, 2])] + both('h_sat_inlist', covers=[1])
         + twin('h_count_twin', 'faw'),
    kani=['strong_increment_saturates', 'strong_decrement', 'tracing_increment_and_reset', 'marks_and_flags_touch_only_their_bits', 'weak_word'],
)
PROPS['C17'] = dict(
    bounds="one generated instantiation per container: tuples 1..12, arrays {0,1,2,3,32}, Vec (len 0..4), boxed slice (0..3), Box, Option, Result, RefCell "
           "(unborrowed / mutably / shared borrowed), ManuallyDrop, AssertUnwindSafe, 7 two-level nestings, non-owning types; symbolic: variants, "
           "lengths, borrow state, the position carrying the cycle",
    outside="arrays with 3<N<32 other than listed; str/Path-like leaf types; " + OUTSIDE_COMMON,
    assumptions=["liballoc's RawVecInner::{grow_amortized, deallocate} (precompiled, not in the IR) are modelled by the engine"],
    runs=[R(e, 'fa', 'dev', covers=[1]) for e in TRACE_ENTRIES] + [R('h_trace_nonowning', 'faw', covers=[1]), R('h_finalize_forwarding', covers=[1])]
         + [R(e, 'fa', 'release', T, covers=[1]) for e in TRACE_ENTRIES] + [R('h_trace_nonowning', 'fawc', tiers=T, covers=[1])]
         + twin('h_trace_twin'),
)
PROPS['C19'] = dict(
    bounds="single thread; the thread-local destructors registered during the run are executed after the entry point returns (LIFO, as the platform does), "
           "with a user thread-local holding Ccs registered before or after the collector's own (both relative orders), objects buffered / in a cycle / unique",
    outside="the independence clause (interleavings of OS threads) is NOT decided; the libc/std thread-exit sequence itself is modelled, not executed",
    runs=both('h_tls', covers=[1], tls_teardown=True) + [R('h_tls', 'faw', covers=[1], tls_teardown=True), R('h_tls', 'none', covers=[1], tls_teardown=True)]
         + [R('h_tls_twin', 'fa', 'dev', Q, twin=True, tls_teardown=True)],
)
PROPS['C20'] = dict(
    bounds="addresses: the C03 layout grid and a zero-sized payload; forwarding: Eq/PartialEq/PartialOrd/Ord/Hash/Default/From on Cc<T> for T in "
           "{u32, i16, (i8,u8), [u8;2]} and PartialEq/PartialOrd on Cc<f64> with fully symbolic values (NaN and signed zeros included, z3 FloatingPoint), "
           "also a Cc compared with its own clone; Debug/Display/Pointer: 12 format specs (width, fill, alignment, sign, zero padding, precision, alternate, hex-debug) through the "
           "real core::fmt::write of the whole-program (fat LTO) IR, with a symbolic Ok/Err result of the payload's fmt",
    outside="f32; formatting of payload types other than the recording probe (the claim is 'forwards to T with the caller's Formatter', decided on 12 format specs)",
    runs=both('h_layout_grid', 'faw', covers=[1]) + both('h_forward_ints', covers=[1]) + both('h_forward_f64', covers=[1]) + [R('h_layout_zst', covers=[1]), R('h_graph_small', covers=[1])] + both('h_layout_small', covers=[1])
         + [R('h_fmt_forward', 'fa', 'dev', covers=[1], lto=True), R('h_fmt_twin', 'fa', 'dev', Q, twin=True, lto=True)]
         + twin('h_layout_twin', 'faw'),
)
