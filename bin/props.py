"""Property -> runs table: which harness entry points, feature sets and IR profiles decide each property,
with the bounds stated for the evidence files."""


def R(entry, features='fa', profile='dev', tiers=('quick', 'thorough'), **kw):
    d = dict(entry=entry, features=features, profile=profile, tiers=tiers)
    d.update(kw)
    return d


def both(entry, features='fa', **kw):
    """dev-like and release-like IR of the same entry"""
    return [R(entry, features, 'dev', **kw), R(entry, features, 'release', **kw)]


PROPS = {}

PROPS['C01'] = dict(
    bounds="graphs of N<=3 objects with 1-2 traced slots (+1 untraced owning slot), every slot target symbolic; symbolic buffering "
           "history per object; symbolic release mask; phantom strong counts 0..16000 as solver variables; one further symbolic "
           "mutation and a second collection",
    outside="N>3 (thorough: N<=4), more than two collections per path, the nightly/no-std configuration, allocation failure",
    runs=both('h_graph_n2', covers=[1, 2]) + both('h_graph_n3', covers=[1, 2]) + both('h_graph_n3_untraced', covers=[1])
         + [R('h_graph_twin', twin=True)],
)
