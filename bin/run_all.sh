#!/bin/bash
# Runs every check of a tier in sequence; one log per property under /verif/.build/logs
tier=${1:-quick}
mkdir -p /verif/.build/logs
cd /verif
for p in $(python3-vt -c "import sys; sys.path.insert(0,'bin'); import props; print(' '.join(sorted(props.PROPS)))"); do
  if [ -n "$2" ] && [[ ! " ${@:2} " =~ " $p " ]]; then continue; fi
  t0=$(date +%s)
  python3-vt bin/check.py --property $p --tier $tier > .build/logs/$p.$tier.log 2>&1
  rc=$?
  t1=$(date +%s)
  echo "$p $tier exit=$rc $((t1-t0))s $(tail -1 .build/logs/$p.$tier.log | cut -c1-160)"
done
