//! Root of the whole-program (fat LTO) IR module: keeps the listed harness entry points alive.
fn main() {
    let fs: [fn(); 2] = [verif_harness::h_fmt::h_fmt_forward, verif_harness::h_fmt::h_fmt_twin];
    for f in fs {
        std::hint::black_box(f);
    }
    if std::env::args().count() > 7 {
        for f in fs {
            f();
        }
    }
}
