//! Replays one harness entry point natively on a concrete input vector (a solver model).
//! usage: replay <harness> [--events] <v0> <v1> ...
//! exit: 0 = every obligation held; 101 = obligation failed (prints its id); 102 = allocator misuse;
//!       103 = the inputs violate an assumption; other/signal = crash.
use verif_harness::native;

#[global_allocator]
static ALLOC: native::Tracking = native::Tracking;

fn main() {
    let args: Vec<String> = std::env::args().collect();
    if args.len() < 2 {
        for n in verif_harness::registry::names() {
            println!("{}", n);
        }
        return;
    }
    let name = args[1].clone();
    let mut inputs = Vec::new();
    for a in &args[2..] {
        if a == "--events" {
            unsafe { native::TRACE_EVENTS = true; }
        } else {
            inputs.push(a.parse::<u64>().expect("input"));
        }
    }
    let f = verif_harness::registry::lookup(&name).expect("unknown harness");
    println!("NATIVE start {}", name); // allocates stdout's buffer before allocation tracking starts
    std::panic::set_hook(Box::new(|_| {}));
    unsafe { native::INPUTS = inputs; }
    native::set_tracking(true);
    // run on a thread of its own, so that thread-local destructors run (and are tracked) when it exits
    let r = std::thread::Builder::new().stack_size(64 << 20).spawn(move || {
        native::set_baseline();
        f()
    }).unwrap().join();
    native::set_tracking(false);
    if r.is_err() {
        println!("NATIVE uncaught-panic");
        std::process::exit(104);
    }
    if unsafe { native::UNDERRUN } {
        println!("NATIVE input-underrun");
    }
    println!("NATIVE ok");
}
