//! Family U (try_unwrap, C13), Y (new_cyclic, C14) and N (API calls nested in callbacks, C12).

use std::cell::UnsafeCell;
use std::panic::{catch_unwind, AssertUnwindSafe};

use rust_cc::*;
#[cfg(feature = "weak-ptrs")]
use rust_cc::weak::Weak;

use crate::h_panic::{arm, disarm, guarded};
use crate::node::*;
use crate::sym::*;

fn in_buffer(baddr: usize) -> bool {
    let mut out = [0usize; 8];
    let wk = rust_cc::verif::walk_buffer(&mut out);
    let mut found = false;
    for k in 0..wk.walked.min(8) {
        if out[k] == baddr {
            found = true;
        }
    }
    found
}

/// C11 (consistency part): the cached size equals the walked length, the links are well formed, every member is marked,
/// and every member is the allocation of an object that still exists.
pub fn oracle_buffer(base: u32) {
    let w = w();
    let mut out = [0usize; 8];
    let wk = rust_cc::verif::walk_buffer(&mut out);
    check(wk.accessible, base + 81);
    check(wk.cached_size == wk.walked, base + 82);
    check(wk.links_ok && wk.marks_ok, base + 83);
    check(state::buffered_objects_count().unwrap_or(usize::MAX) == wk.walked, base + 84);
    for k in 0..wk.walked.min(8) {
        let mut known = false;
        let mut dup = false;
        for i in 0..w.n {
            if w.created[i] && w.baddr[i] == out[k] {
                known = w.drops[i] == 0 && !w.unwrapped[i];
            }
        }
        for k2 in 0..k {
            if out[k2] == out[k] {
                dup = true;
            }
        }
        check(known && !dup, base + 85); // distinct live objects
    }
}

/// C11 (exact part, finalizer-free programs): the buffered set equals the model's prediction.
pub fn oracle_buffer_exact(base: u32) {
    let w = w();
    let mut out = [0usize; 8];
    let wk = rust_cc::verif::walk_buffer(&mut out);
    let mut predicted = 0;
    for i in 0..w.n {
        if w.created[i] && w.buffered[i] {
            predicted += 1;
            let mut found = false;
            for k in 0..wk.walked.min(8) {
                if out[k] == w.baddr[i] {
                    found = true;
                }
            }
            check(found, base + 86); // predicted to be buffered, is not
        }
    }
    check(wk.walked == predicted, base + 87); // something is buffered that should not be
}

// ------------------------------------------------------------------------------------------------ try_unwrap

fn unwrap_scenario(phantom: bool, weak: bool) {
    // node 0 (the one unwrapped) optionally owns node 1
    new_node(0);
    new_node(1);
    if any_below(2) == 1 {
        set_slot(0, 0, 1);
    }
    if any_below(2) == 1 {
        set_slot(1, 0, 0); // makes node 0 shared: 0 <-> 1 or 1 -> 0
    }
    #[cfg(feature = "weak-ptrs")]
    if weak {
        let c = any_below(3);
        if c >= 1 {
            w().w[0] = Some(handle(0).unwrap().downgrade());
        }
        if c == 2 {
            w().w2[0] = w().w[0].clone();
        }
        // Weaks released again before the try_unwrap: the side record stays allocated with a weak count
        // that went back down (to 0 when all of them are released)
        if c >= 1 {
            let d = any_below(3);
            if d >= 1 {
                drop(w().w[0].take());
            }
            if d == 2 {
                drop(w().w2[0].take());
            }
        }
    }
    if phantom {
        let p = any_u16();
        assume(p <= 16000);
        add_phantom(0, p);
    }
    // buffered or not
    if any_below(2) == 1 {
        clone_h(0);
        drop_h2(0);
    }
    // a second real pointer or not
    if any_below(2) == 1 {
        clone_h(0);
    }
    if any_below(2) == 1 {
        drop_h(1);
    }
    oracle_safety(100);
    oracle_buffer(100);
    let w = w();
    let before_cnt = model_count(0);
    let buffered_before = in_buffer(w.baddr[0]);
    let bcount_before = state::buffered_objects_count().unwrap_or(0);
    let bytes_before = state::allocated_bytes().unwrap_or(0);
    let live_before = heap_live();
    let d0 = w.drops[0];
    let f0 = w.fins[0];
    let cc = w.h[0].take().unwrap();
    let snap_before = rust_cc::verif::snapshot(&cc);
    let af_before = cc.already_finalized_compat();
    let addr = (&*cc) as *const Node as usize;
    let sc = cc.strong_count();
    check(sc == before_cnt, 201);
    match cc.try_unwrap() {
        Ok(v) => {
            cover(1);
            check(before_cnt == 1, 211); // C13: Ok exactly when unique
            check(v.id == 0 && v.canary == CANARY, 212); // moved out unchanged
            check(w.drops[0] == d0 && w.fins[0] == f0, 213); // no destructor, no finalizer
            check(state::allocated_bytes().unwrap_or(0) + w.boxsz[0] as usize == bytes_before, 214); // allocation released
            check(!in_buffer(w.baddr[0]), 215); // left the buffer
            if buffered_before {
                check(state::buffered_objects_count().unwrap_or(0) + 1 == bcount_before, 216);
            } else {
                check(state::buffered_objects_count().unwrap_or(0) == bcount_before, 216);
            }
            w.unwrapped[0] = true;
            w.armed[0] = false; // a value moved out of its Cc is an ordinary value: nobody finalizes it
            #[cfg(feature = "weak-ptrs")]
            {
                // the box is gone; the side record lives on exactly if Weaks exist
                let weaks = w.w[0].is_some() as u64 + w.w2[0].is_some() as u64;
                let had_meta = snap_before.has_metadata as u64;
                check(heap_live() + 1 + (had_meta - if weaks > 0 { had_meta } else { 0 }) == live_before + if weaks > 0 { 0 } else { 0 }, 217);
                crate::h_weak::oracle_weak(220); // every Weak stops upgrading, counts stay exact
            }
            #[cfg(not(feature = "weak-ptrs"))]
            check(heap_live() + 1 == live_before, 217);
            oracle_buffer(230);
            drop(v); // an ordinary value now: its destructor runs exactly once, its fields are released
            check(w.drops[0] == d0 + 1, 218);
        }
        Err(p) => {
            cover(2);
            check(before_cnt != 1, 221); // C13: Err only when not unique (we are outside any callback)
            check((&*p) as *const Node as usize == addr, 222); // the very same pointer
            let snap_after = rust_cc::verif::snapshot(&p);
            check(snap_after == snap_before, 223); // counts, buffering, finalization state unchanged
            check(p.already_finalized_compat() == af_before, 223);
            check(state::buffered_objects_count().unwrap_or(0) == bcount_before, 224);
            check(state::allocated_bytes().unwrap_or(0) == bytes_before && heap_live() == live_before, 225);
            check(w.drops[0] == d0 && w.fins[0] == f0, 226);
            w.h[0] = Some(p);
        }
    }
    oracle_safety(300);
    oracle_rc(300);
    oracle_buffer(300);
    // release everything the program still holds
    if phantom {
        if let Some(c) = handle(0) {
            let p = w.phantom[0];
            if p > 0 && rust_cc::verif::sub_phantom_strong(c, p) {
                w.phantom[0] = 0;
            }
        }
    }
    drop_h(0);
    drop_h2(0);
    drop_h(1);
    collect_quiescent(3, 400);
    oracle_safety(400);
    oracle_rc(400);
    if w.phantom[0] == 0 {
        oracle_complete(400);
    }
    oracle_buffer(400);
    #[cfg(feature = "weak-ptrs")]
    {
        crate::h_weak::oracle_weak(410);
        w.w[0] = None;
        w.w2[0] = None;
    }
    if w.phantom[0] == 0 {
        check(heap_live() == 0, 420); // C03/C09: every box and side record released
    }
}

#[no_mangle]
pub fn h_unwrap() {
    unwrap_scenario(true, false);
}

#[cfg(feature = "weak-ptrs")]
#[no_mangle]
pub fn h_unwrap_weak() {
    unwrap_scenario(true, true);
}

#[no_mangle]
pub fn h_unwrap_twin() {
    unwrap_scenario(false, false);
    check(false, 9999);
}

// ------------------------------------------------------------------------------------------------ nesting (C12)

/// A probe object the callbacks try to unwrap / re-arm; unique, program-held.
pub static mut PROBE: Option<Cc<u64>> = None;
#[cfg(feature = "weak-ptrs")]
pub static mut PROBE_WEAK: Option<Weak<u64>> = None;
pub static mut NEST_BAD: u32 = 0;
pub static mut NEST_DONE: u32 = 0;

/// Buffers the probe object (if there is one): one of two pointers to it is dropped.
pub fn buffer_probe() {
    unsafe {
        if let Some(p) = &*core::ptr::addr_of!(PROBE) {
            let extra = p.clone();
            drop(extra);
        }
    }
}

/// Called from inside finalizers and destructors: try_unwrap must fail, finalize_again must panic, nothing changes.
pub fn nested_probe() {
    unsafe {
        let p = &mut *core::ptr::addr_of_mut!(PROBE);
        if let Some(cc) = p.take() {
            NEST_DONE += 1;
            let snap = rust_cc::verif::snapshot(&cc);
            let addr = (&*cc) as *const u64 as usize;
            match cc.try_unwrap() {
                Ok(v) => {
                    NEST_BAD += 1; // C12: must be Err inside a finalizer / destructor
                    *p = Some(Cc::new(v));
                }
                Err(mut cc) => {
                    if (&*cc) as *const u64 as usize != addr || rust_cc::verif::snapshot(&cc) != snap {
                        NEST_BAD += 1;
                    }
                    #[cfg(feature = "weak-ptrs")]
                    {
                        // the refused try_unwrap must not have touched the side record: the Weak still upgrades
                        if let Some(wk) = &*core::ptr::addr_of!(PROBE_WEAK) {
                            if wk.strong_count() != 1 || wk.weak_count() != 1 {
                                NEST_BAD += 1;
                            }
                            match wk.upgrade() {
                                Some(up) => {
                                    if !Cc::ptr_eq(&up, &cc) {
                                        NEST_BAD += 1;
                                    }
                                    core::mem::forget(up); // callbacks must not drop Ccs; undo the count below
                                    let _ = rust_cc::verif::sub_phantom_strong(&cc, 1);
                                }
                                None => NEST_BAD += 1,
                            }
                        }
                    }
                    // (the upgrade above may have taken the probe out of the buffer, as upgrade is documented to do)
                    let snap = rust_cc::verif::snapshot(&cc);
                    #[cfg(feature = "finalization")]
                    {
                        let r = catch_unwind(AssertUnwindSafe(|| cc.finalize_again()));
                        if r.is_ok() || rust_cc::verif::snapshot(&cc) != snap {
                            NEST_BAD += 1; // C12: finalize_again must panic and leave the object unchanged
                        }
                    }
                    *p = Some(cc);
                }
            }
        }
    }
}

fn nest_scenario(n: usize, full: bool) {
    for i in 0..n {
        new_node(i);
    }
    for i in 0..n {
        let t = any_below(n as u8 + 1) as usize;
        if t < n {
            set_slot(i, 0, t);
        }
    }
    unsafe {
        let b0 = state::allocated_bytes().unwrap_or(0);
        PROBE = Some(Cc::new(77u64));
        w().extra_bytes = (state::allocated_bytes().unwrap_or(0) - b0) as u64;
        #[cfg(feature = "weak-ptrs")]
        {
            PROBE_WEAK = (*core::ptr::addr_of!(PROBE)).as_ref().map(|c| c.downgrade());
        }
    }
    // an earlier completed collection has raised the byte threshold above the allocated bytes (or not)
    if any_below(2) == 1 {
        collect_cycles();
    }
    // an extra program-held pointer to node 0 that a finalizer may release (it gets buffered by that)
    if any_below(2) == 1 {
        if let Some(c) = handle(0) {
            let c = c.clone();
            w().stash[0] = Some(c);
        }
    }
    #[cfg(feature = "auto-collect")]
    if any_below(2) == 1 {
        // the buffered-objects trigger is armed (bytes alone would already trigger here; this exercises the other branch)
        let _ = rust_cc::config::config(|c| c.set_buffered_objects_threshold(core::num::NonZeroUsize::new(1)));
    }
    for i in 0..n {
        // what the finalizer and the destructor of node i do
        if full || i == 0 {
            w().fin_act[i] = match any_below(5) {
                1 => F_COLLECT,
                2 => F_ALLOC_NODE,
                3 => F_PROBE,
                4 => F_UNSTASH_ALLOC,
                _ => F_NONE,
            };
            w().drop_act[i] = match any_below(5) {
                1 => D_COLLECT,
                2 => D_TEMP,
                3 => D_PROBE,
                4 => D_ALLOC_NODE,
                _ => D_NONE,
            };
        } else {
            w().fin_act[i] = if any_below(2) == 1 { F_UNSTASH_ALLOC } else { F_NONE };
            w().drop_act[i] = if any_below(2) == 1 { D_COLLECT } else { D_NONE };
        }
    }
    for i in 0..n {
        if any_below(2) == 1 {
            clone_h(i);
            drop_h2(i);
        }
    }
    // how the objects die: plain drop, explicit collection, or a collection triggered by Cc::new
    for i in 0..n {
        if any_below(2) == 1 {
            drop_h(i);
            oracle_safety(200);
            oracle_rc(200);
        }
    }
    if any_below(2) == 1 {
        collect_quiescent(4, 300);
    } else {
        let e0 = state::executions_count().unwrap_or(0);
        let c = Cc::new(5u8); // may trigger an automatic collection
        let e1 = state::executions_count().unwrap_or(0);
        check(e1 == e0 || e1 == e0 + 1, 331);
        drop(c);
        collect_quiescent(4, 300);
    }
    oracle_safety(300);
    oracle_rc(300);
    oracle_complete(300);
    oracle_buffer(300);
    for i in 0..MAXN {
        if w().stash[i].is_some() {
            drop_stash(i);
            oracle_safety(350);
            oracle_rc(350);
        }
    }
    collect_quiescent(4, 360);
    oracle_safety(360);
    oracle_complete(360);
    unsafe {
        check(NEST_BAD == 0, 341); // C12
        if NEST_DONE > 0 {
            cover(3);
        }
        // outside callbacks the probe is an ordinary unique Cc again
        let p = (*core::ptr::addr_of_mut!(PROBE)).take();
        if let Some(cc) = p {
            check(!state::is_tracing().unwrap_or(true), 342);
            match cc.try_unwrap() {
                Ok(v) => check(v == 77, 343),
                Err(_) => check(false, 344),
            }
            w().extra_bytes = 0;
            #[cfg(feature = "weak-ptrs")]
            {
                if let Some(wk) = (*core::ptr::addr_of_mut!(PROBE_WEAK)).take() {
                    check(wk.upgrade().is_none() && wk.strong_count() == 0, 345);
                }
            }
        }
    }
    cover(1);
}

#[no_mangle]
pub fn h_nest_n2() {
    nest_scenario(2, false);
}

#[no_mangle]
pub fn h_nest_n2_full() {
    nest_scenario(2, true);
}

#[no_mangle]
pub fn h_nest_twin() {
    nest_scenario(1, false);
    check(false, 9999);
}
