//! Family CL: cleaners (C10). Actions registered on the cleaners of graph nodes; symbolic interleaving of
//! clean() / Cleanable drop / owner release by reference counting or inside a cycle.
#![cfg(feature = "cleaners")]

use rust_cc::cleaners::{Cleanable, Cleaner};
use rust_cc::weak::Weak;
use rust_cc::*;

use crate::h_panic::guarded;
use crate::node::*;
use crate::sym::*;

pub const MAXA: usize = 4;

// action kinds
pub const A_NOOP: u8 = 0;
pub const A_DROP_CC: u8 = 1; // drop a captured Cc
pub const A_ALLOC: u8 = 2; // allocate
pub const A_UPGRADE: u8 = 3; // upgrade a captured Weak (to the owner or to its neighbour)
pub const A_CLEAN_OTHER: u8 = 4; // call clean() on another cleanable
pub const A_NKINDS: u8 = 5;

pub struct Acts {
    pub registered: [bool; MAXA],
    pub owner: [u8; MAXA],
    pub kind: [u8; MAXA],
    pub count: [u8; MAXA],
    /// model: the action still holds a Cc to this node (A_DROP_CC before it ran)
    pub captured: [u8; MAXA],
    pub wtarget: [u8; MAXA],
    pub cleanable: [Option<Cleanable>; MAXA],
    pub late: u32,
    pub bad: u32,
}
const NO_CL: Option<Cleanable> = None;
pub static mut ACTS: Acts = Acts {
    registered: [false; MAXA],
    owner: [NONE; MAXA],
    kind: [0; MAXA],
    count: [0; MAXA],
    captured: [NONE; MAXA],
    wtarget: [NONE; MAXA],
    cleanable: [NO_CL; MAXA],
    late: 0,
    bad: 0,
};
pub fn acts() -> &'static mut Acts {
    unsafe { &mut *core::ptr::addr_of_mut!(ACTS) }
}

pub fn captured_pointers_to(i: usize) -> u32 {
    let a = acts();
    let mut c = 0;
    for k in 0..MAXA {
        if a.registered[k] && a.captured[k] == i as u8 {
            c += 1;
        }
    }
    c
}

/// Called when the field right after node `id`'s cleaner is dropped: every action of that cleaner has run by now.
pub fn after_cleaner_dropped(id: usize) {
    let a = acts();
    if w().tainted {
        return;
    }
    for k in 0..MAXA {
        if a.registered[k] && a.owner[k] == id as u8 && a.count[k] != 1 {
            a.late += 1; // C10: exactly once by the time the Cleaner's drop returns
        }
    }
}

fn run_action(k: usize, cc: Option<Cc<Node>>, wk: Option<Weak<Node>>) {
    let a = acts();
    a.count[k] = a.count[k].wrapping_add(1);
    event(K_ACTION as u32, k as u64, 0);
    if state::is_tracing().unwrap_or(false) {
        w().bad_phase += 1; // C12: never "tracing" inside a cleaning action
    }
    maybe_fault(K_ACTION);
    match a.kind[k] {
        A_DROP_CC => {
            a.captured[k] = NONE;
            note_unreachable();
            drop(cc);
        }
        A_ALLOC => {
            let c = Cc::new(3u8);
            drop(c);
        }
        A_UPGRADE => {
            if let Some(wk) = &wk {
                let t = a.wtarget[k] as usize;
                match wk.upgrade() {
                    Some(c) => {
                        // C10/C08: never a dropped object
                        if w().drops[t] != 0 || c.canary != CANARY + t as u32 || c.id != t {
                            a.bad += 1;
                        }
                        stash_put_pub(t, c);
                    }
                    None => {}
                }
            }
        }
        A_CLEAN_OTHER => {
            let o = (k + 1) % MAXA;
            if let Some(cl) = &a.cleanable[o] {
                cl.clean();
            }
        }
        _ => {}
    }
}

fn register(k: usize, owner: usize, kind: u8, n: usize) {
    let a = acts();
    let Some(h) = handle(owner) else { return };
    a.owner[k] = owner as u8;
    a.kind[k] = kind;
    let mut cc = None;
    let mut wk = None;
    if kind == A_DROP_CC {
        // captures a Cc to the *other* node (never to the owner: that would leak by design)
        let t = (owner + 1) % n;
        // documented misuse is outside the property: an action must not capture (directly or through other objects) a
        // reference to the object that contains its cleaner - that is a leak by design
        if t != owner && !reach_from(t)[owner] {
            if let Some(th) = handle(t) {
                cc = Some(th.clone());
                a.captured[k] = t as u8;
            }
        }
    }
    if kind == A_UPGRADE {
        let t = if any_below(2) == 0 { owner } else { (owner + 1) % n };
        if let Some(th) = handle(t) {
            wk = Some(th.downgrade());
            a.wtarget[k] = t as u8;
        }
    }
    a.registered[k] = true;
    let cl = h.cleaner.register(move || run_action(k, cc, wk));
    a.cleanable[k] = Some(cl);
}

pub fn oracle_clean(base: u32) {
    let a = acts();
    let w = w();
    for k in 0..MAXA {
        if !a.registered[k] {
            continue;
        }
        check(a.count[k] <= 1, base + 91); // C10: at most once
        let o = a.owner[k] as usize;
        if w.drops[o] == 1 && !w.tainted {
            check(a.count[k] == 1, base + 92); // C10: exactly once once the owner (and its Cleaner) is gone
        }
    }
    check(a.late == 0, base + 93);
    check(a.bad == 0, base + 94);
}

fn clean_scenario(n: usize, nacts: usize, kinds: u8, only_clean_other: bool, inter: u8) {
    for i in 0..n {
        new_node(i);
    }
    for i in 0..n {
        let t = any_below(n as u8 + 1) as usize;
        if t < n {
            set_slot(i, 0, t);
        }
    }
    // actions: owner and kind symbolic
    for k in 0..nacts {
        let owner = any_below(n as u8) as usize;
        let mut kind = any_below(kinds);
        if only_clean_other && kind == 1 {
            kind = A_CLEAN_OTHER;
        }
        register(k, owner, kind, n);
    }
    oracle_safety(100);
    oracle_clean(100);
    // interleaving: per action: nothing / clean now / drop the cleanable / clean then drop
    for k in 0..nacts {
        match any_below(inter) {
            1 => {
                if let Some(cl) = &acts().cleanable[k] {
                    cl.clean();
                }
                check(acts().count[k] == 1, 201);
                if let Some(cl) = &acts().cleanable[k] {
                    cl.clean(); // again: a no-op
                }
                check(acts().count[k] == 1, 202);
            }
            2 => {
                let before = acts().count[k];
                acts().cleanable[k] = None; // dropping a Cleanable neither runs nor cancels its action
                check(acts().count[k] == before, 203);
            }
            3 => {
                if let Some(cl) = acts().cleanable[k].take() {
                    cl.clean();
                    drop(cl);
                }
            }
            _ => {}
        }
        oracle_clean(210);
        oracle_safety(210);
    }
    // owners are released: by reference counting or as part of a cycle
    for i in 0..n {
        if any_below(2) == 1 {
            drop_h(i);
            oracle_safety(300);
            oracle_rc(300);
            oracle_clean(300);
        }
    }
    // clean() may also be called when the owners are already unreachable but not collected yet
    let late = any_below(nacts as u8 + 1) as usize;
    if late < nacts {
        if let Some(cl) = &acts().cleanable[late] {
            cl.clean();
        }
        check(acts().count[late] <= 1, 351);
        oracle_clean(350);
    }
    collect_quiescent(4, 400);
    oracle_safety(400);
    oracle_rc(400);
    oracle_clean(400);
    // clean() after the cleaner is gone is a no-op
    for k in 0..nacts {
        let c0 = acts().count[k];
        if let Some(cl) = &acts().cleanable[k] {
            let o = acts().owner[k] as usize;
            if w().drops[o] == 1 {
                cl.clean();
                check(acts().count[k] == c0, 501);
            }
        }
    }
    for i in 0..MAXN {
        drop_stash(i);
    }
    for i in 0..n {
        drop_h(i);
    }
    collect_quiescent(4, 600);
    oracle_safety(600);
    oracle_clean(600);
    cover(1);
}

#[no_mangle]
pub fn h_clean_n2() {
    clean_scenario(2, 2, A_NKINDS, false, 4);
}

#[no_mangle]
pub fn h_clean_n2_a3() {
    clean_scenario(2, 3, 2, true, 2);
}

/// A cleaning action panics at a symbolic invocation (C07): the panic reaches the caller of clean() / drop / collect_cycles,
/// the collector stays usable and no action runs twice.
#[no_mangle]
pub fn h_clean_panic() {
    use crate::h_panic::{arm, disarm, oracle_idle};
    let n = 2;
    for i in 0..n {
        new_node(i);
    }
    let t = any_below(n as u8 + 1) as usize;
    if t < n {
        set_slot(0, 0, t);
    }
    set_slot(1, 0, 0);
    for k in 0..3 {
        let owner = any_below(n as u8) as usize;
        let kind = if any_below(2) == 1 { A_ALLOC } else { A_NOOP };
        register(k, owner, kind, n);
    }
    let k = any_u8();
    assume(k >= 1 && k <= 3);
    arm(K_ACTION, k as u32);
    // a manual clean() of one action
    let c = any_below(4) as usize;
    if c < 3 {
        let fired0 = w().fault_fired;
        let p = guarded(|| {
            if let Some(cl) = &acts().cleanable[c] {
                cl.clean();
            }
        });
        check(p == (w().fault_fired > fired0), 201); // the panic reaches the caller of clean()
        oracle_clean(200);
    }
    for i in 0..n {
        if any_below(2) == 1 {
            let fired0 = w().fault_fired;
            let p = guarded(|| drop_h(i));
            check(p == (w().fault_fired > fired0), 301);
            oracle_safety(300);
            oracle_clean(300);
        }
    }
    let fired0 = w().fault_fired;
    let p = guarded(|| collect_cycles());
    check(p == (w().fault_fired > fired0), 401);
    disarm();
    oracle_idle(400);
    oracle_safety(400);
    oracle_clean(400);
    for i in 0..n {
        guarded(|| drop_h(i));
    }
    guarded(|| collect_quiescent(4, 500));
    oracle_safety(500);
    oracle_clean(500);
    cover(1);
}

/// An action holds the last Cc to a finalizable helper whose finalizer upgrades a Weak to a member of the owner's cycle:
/// when the collector destroys the cycle, the action runs, the helper is released by a nested plain drop and its finalizer
/// must not be able to reach a condemned object (C10: actions never reach a dropped object; C08).
#[no_mangle]
pub fn h_clean_helper() {
    for i in 0..3 {
        new_node(i);
    }
    set_slot(0, 0, 1);
    set_slot(1, 0, 0);
    let owner = any_below(2) as usize;
    let target = any_below(2) as usize;
    if any_below(2) == 1 {
        set_slot(target, 1, target); // keeps the target's count positive while its neighbour is being destroyed
    }
    if let (Some(h), Some(t)) = (handle(2), handle(target)) {
        *h.wslot() = Some(t.downgrade());
        w().wedge[2] = target as u8;
    }
    w().fin_act[2] = if any_below(2) == 1 { F_UPGRADE_STASH } else { F_NONE };
    w().drop_act[2] = if any_below(2) == 1 { D_UPGRADE } else { D_NONE };
    // the action captures the only remaining Cc to the helper
    {
        let a = acts();
        a.owner[0] = owner as u8;
        a.kind[0] = A_DROP_CC;
        let cc = handle(2).map(|c| c.clone());
        a.captured[0] = 2;
        a.registered[0] = true;
        let cl = handle(owner).unwrap().cleaner.register(move || run_action(0, cc, None));
        a.cleanable[0] = Some(cl);
    }
    if any_below(2) == 1 {
        register(1, 1 - owner, A_NOOP, 2);
    }
    drop_h(2);
    oracle_safety(100);
    for i in 0..2 {
        if any_below(2) == 1 {
            clone_h(i);
            drop_h2(i);
        }
    }
    for i in 0..2 {
        if any_below(2) == 1 {
            drop_h(i);
            oracle_safety(200);
            oracle_rc(200);
            oracle_clean(200);
        }
    }
    collect_quiescent(4, 300);
    oracle_safety(300);
    oracle_rc(300);
    oracle_clean(300);
    for i in 0..MAXN {
        drop_stash(i);
    }
    for i in 0..2 {
        drop_h(i);
    }
    collect_quiescent(4, 400);
    oracle_safety(400);
    oracle_clean(400);
    cover(1);
}

#[no_mangle]
pub fn h_clean_twin() {
    clean_scenario(1, 1, 2, false, 4);
    check(false, 9999);
}
