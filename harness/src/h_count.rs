//! Family K: reference-count saturation (C16) and the counter-word kernels.

use std::panic::{catch_unwind, AssertUnwindSafe};

use rust_cc::*;
#[cfg(feature = "weak-ptrs")]
use rust_cc::weak::Weak;

use crate::h_panic::guarded;
use crate::node::*;
use crate::sym::*;

pub const MAX_STRONG: u32 = 16382;
pub const MAX_WEAK: u32 = 32767;

/// An object whose strong count is 1 + n for a symbolic n; one more pointer is created by clone or upgrade.
fn saturate_strong(weak: bool) {
    // finalized or not: node 1 may be created inside the finalizer of node 0 (born finalized)
    let born_finalized = any_below(2) == 1;
    let t: usize;
    if born_finalized && cfg!(feature = "finalization") {
        new_node(0);
        w().fin_act[0] = F_ALLOC_NODE;
        drop_h(0); // reference-count path: the finalizer creates node 1 and keeps it in the stash
        t = 1;
        check(w().stash[1].is_some(), 101);
        let c = w().stash[1].take();
        w().h[1] = c;
    } else {
        new_node(1);
        t = 1;
    }
    #[cfg(feature = "weak-ptrs")]
    let with_side_record = weak && any_below(2) == 1;
    #[cfg(feature = "weak-ptrs")]
    if with_side_record {
        w().w[t] = Some(handle(t).unwrap().downgrade());
    }
    let n = any_u16();
    assume(n <= 16381);
    add_phantom(t, n);
    check(w().phantom[t] == n, 102);
    let cc = handle(t).unwrap();
    let total = 1 + n as u32;
    check(cc.strong_count() == total, 103);
    let snap = rust_cc::verif::snapshot(cc);
    let af = cc.already_finalized_compat();
    // ---- one more pointer: by clone or (weak-ptrs) by upgrade
    let mut via_upgrade = false;
    #[cfg(feature = "weak-ptrs")]
    if with_side_record && any_below(2) == 1 {
        via_upgrade = true;
    }
    let mut got: Option<Cc<Node>> = None;
    let panicked = catch_unwind(AssertUnwindSafe(|| {
        #[cfg(feature = "weak-ptrs")]
        if via_upgrade {
            got = w().w[t].as_ref().unwrap().upgrade();
            return;
        }
        got = Some(cc.clone());
    }))
    .is_err();
    if total == MAX_STRONG {
        cover(1);
        check(panicked, 111); // C16: panics at the limit
        check(got.is_none(), 112);
        check(rust_cc::verif::snapshot(cc) == snap, 113); // count and flags unchanged
        check(cc.strong_count() == MAX_STRONG, 114);
        check(cc.already_finalized_compat() == af, 115);
    } else {
        cover(2);
        check(!panicked, 121);
        check(got.is_some(), 122);
        check(cc.strong_count() == total + 1, 123); // never wraps
        let s2 = rust_cc::verif::snapshot(cc);
        check(s2.finalized == snap.finalized && s2.has_metadata == snap.has_metadata && !s2.dropped, 124); // never spills into the flags
        check(cc.already_finalized_compat() == af, 125);
        w().h2[t] = got.take();
        check(cc.strong_count() == total + 1, 126);
        drop_h2(t);
        check(cc.strong_count() == total, 127);
    }
    #[cfg(feature = "weak-ptrs")]
    if with_side_record {
        check(cc.weak_count() == 1, 128);
    }
    // ---- the object remains correctly managed: remove the phantoms, put it in a cycle, collect
    check(rust_cc::verif::sub_phantom_strong(cc, n) || n == 0, 131);
    w().phantom[t] = 0;
    set_slot(t, 0, t);
    let f0 = w().fins[t];
    drop_h(t);
    collect_quiescent(3, 200);
    check(w().drops[t] == 1, 141); // freed once
    if cfg!(feature = "finalization") {
        check(w().fins[t] == f0 + if af { 0 } else { 1 }, 142); // finalized once (if it was due)
    }
    oracle_safety(200);
    oracle_complete(200);
    #[cfg(feature = "weak-ptrs")]
    {
        w().w[t] = None;
    }
    check(heap_live() == 0, 143);
}

#[no_mangle]
pub fn h_sat_strong() {
    saturate_strong(cfg!(feature = "weak-ptrs"));
}

// ---- the limit reached by REAL pointers held inside a garbage cycle, one more clone attempted by a finalizer the collector runs
pub struct Big {
    pub id: usize,
    pub many: std::cell::UnsafeCell<Vec<Cc<Big>>>,
    pub back: std::cell::UnsafeCell<Option<Cc<Big>>>,
}
pub static mut BIG_DROPS: [u8; 2] = [0; 2];
pub static mut BIG_FINS: [u8; 2] = [0; 2];
pub static mut BIG_RESULT: u8 = 0;
unsafe impl Trace for Big {
    fn trace(&self, ctx: &mut Context<'_>) {
        unsafe {
            (*self.many.get()).trace(ctx);
            (*self.back.get()).trace(ctx);
        }
    }
}
impl Finalize for Big {
    fn finalize(&self) {
        unsafe {
            BIG_FINS[self.id] += 1;
            if self.id == 0 {
                // A holds 16382 pointers to X: one more must panic, leaving the count unchanged
                let v = &*self.many.get();
                if let Some(x) = v.first() {
                    let before = x.strong_count();
                    let r = catch_unwind(AssertUnwindSafe(|| x.clone()));
                    match r {
                        Ok(extra) => {
                            BIG_RESULT |= 1; // no panic at the limit
                            core::mem::forget(extra);
                        }
                        Err(_) => BIG_RESULT |= 2,
                    }
                    if x.strong_count() != before {
                        BIG_RESULT |= 4; // count changed by the failed operation
                    }
                }
            }
        }
    }
}
impl Drop for Big {
    fn drop(&mut self) {
        unsafe { BIG_DROPS[self.id] += 1 };
    }
}

#[no_mangle]
pub fn h_sat_inlist() {
    let x = Cc::new(Big { id: 1, many: std::cell::UnsafeCell::new(Vec::new()), back: std::cell::UnsafeCell::new(None) });
    let a = Cc::new(Big { id: 0, many: std::cell::UnsafeCell::new(Vec::new()), back: std::cell::UnsafeCell::new(None) });
    unsafe {
        let v = &mut *a.many.get();
        // the handle `x` itself is the 16382nd pointer: it is moved into A at the end
        for _ in 0..(MAX_STRONG - 1) {
            v.push(x.clone());
        }
        *x.back.get() = Some(a.clone());
        check(x.strong_count() == MAX_STRONG, 101);
        // one more at top level panics as well
        check(catch_unwind(AssertUnwindSafe(|| x.clone())).is_err(), 102);
        v.push(x);
    }
    drop(a);
    let p = catch_unwind(AssertUnwindSafe(|| collect_cycles())).is_err();
    let _ = catch_unwind(AssertUnwindSafe(|| collect_cycles()));
    unsafe {
        check(!p, 103); // the finalizer caught the panic itself
        check(BIG_RESULT & 1 == 0, 111); // C16: clone panics at the limit, also for an object the collector has in its lists
        check(BIG_RESULT & 4 == 0, 112); // count unchanged
        check(BIG_RESULT & 2 != 0 || !cfg!(feature = "finalization"), 113);
        check(BIG_DROPS[0] == 1 && BIG_DROPS[1] == 1, 114); // collected afterwards: dropped once
        if cfg!(feature = "finalization") {
            check(BIG_FINS[0] == 1 && BIG_FINS[1] == 1, 115); // finalized once
        }
        check(state::allocated_bytes().unwrap_or(1) == 0 && heap_live() == 0, 116); // freed once
    }
    cover(1);
}

/// Weak count 1 + m for a symbolic m; one more Weak by downgrade or Weak::clone.
#[cfg(feature = "weak-ptrs")]
#[no_mangle]
pub fn h_sat_weak() {
    new_node(0);
    let cc = handle(0).unwrap();
    w().w[0] = Some(cc.downgrade());
    let m = any_u16();
    assume(m <= 32766);
    check(rust_cc::verif::add_phantom_weak(cc, m), 101);
    w().wphantom[0] = m;
    let total = 1 + m as u32;
    check(cc.weak_count() == total, 102);
    let snap = rust_cc::verif::snapshot(cc);
    // value alive or already gone (counting queries stay valid on the side record)
    let dead = any_below(2) == 1;
    if dead {
        drop_h(0);
        check(w().drops[0] == 1, 103);
    }
    let via_clone = dead || any_below(2) == 1;
    let mut got: Option<Weak<Node>> = None;
    let panicked = catch_unwind(AssertUnwindSafe(|| {
        if via_clone {
            got = Some(w().w[0].as_ref().unwrap().clone());
        } else {
            got = Some(handle(0).unwrap().downgrade());
        }
    }))
    .is_err();
    let wk = w().w[0].as_ref().unwrap();
    if total == MAX_WEAK {
        cover(1);
        check(panicked && got.is_none(), 111); // C16: panics at the limit
        check(wk.weak_count() == MAX_WEAK, 112); // unchanged
    } else {
        cover(2);
        check(!panicked && got.is_some(), 121);
        check(wk.weak_count() == total + 1, 122); // never wraps
        drop(got.take());
        check(wk.weak_count() == total, 123);
    }
    if dead {
        check(wk.strong_count() == 0 && wk.upgrade().is_none(), 131); // never spills into the accessible flag
    } else {
        check(wk.strong_count() == 1, 132);
        check(rust_cc::verif::snapshot(handle(0).unwrap()) == snap, 133);
        match wk.upgrade() {
            Some(c) => {
                check(c.canary == CANARY, 134);
                drop(c);
            }
            None => check(false, 135),
        }
    }
    // release: the side record is freed exactly once, when the box and the last Weak are gone
    if !dead {
        check(rust_cc::verif::sub_phantom_weak(handle(0).unwrap(), m), 141);
        w().wphantom[0] = 0;
        drop_h(0);
        collect_quiescent(2, 200);
        check(w().drops[0] == 1, 142);
        check(heap_live() == 1, 143); // only the side record
        w().w[0] = None;
        check(heap_live() == 0, 144);
    }
    oracle_safety(300);
}

/// The counter word kernels from an arbitrary word pair: an operation never alters bits outside its field.
#[no_mangle]
pub fn h_counter_kernel() {
    use rust_cc::verif::counter_kernel::{apply, query};
    let tc = any_u16();
    let c = any_u16();
    // representation invariant: neither 14-bit field holds the reserved all-ones value (except "dropped" in tc)
    assume(c & 0x3FFF != 0x3FFF);
    let dropped = tc & 0x3FFF == 0x3FFF;
    let op = any_below(13);
    if dropped && op <= 3 {
        return; // arithmetic on the tracing counter of a dropped object is never performed
    }
    let (tc2, c2, r) = apply(tc, c, op);
    match op {
        0 => {
            // increment_counter
            if c & 0x3FFF == 16382 {
                check(r == 1 && c2 == c && tc2 == tc, 101); // Err, unchanged
            } else {
                check(r == 0 && c2 == c + 1 && (c2 & 0xC000) == (c & 0xC000) && tc2 == tc, 102);
            }
        }
        1 => {
            if c & 0x3FFF == 0 {
                check(r == 1 && c2 == c && tc2 == tc, 103);
            } else {
                check(r == 0 && c2 == c - 1 && (c2 & 0xC000) == (c & 0xC000) && tc2 == tc, 104);
            }
        }
        2 => {
            if tc & 0x3FFF == 16382 {
                check(r == 1 && tc2 == tc && c2 == c, 105);
            } else {
                check(r == 0 && tc2 == tc + 1 && (tc2 & 0xC000) == (tc & 0xC000) && c2 == c, 106);
            }
        }
        3 => check(tc2 == tc & 0xC000 && c2 == c, 107), // reset_tracing_counter
        4..=7 => {
            let mark = (op - 4) as u16;
            check(tc2 == (tc & 0x3FFF) | (mark << 14) && c2 == c, 108); // mark: only the mark bits
            check(query(tc2, c2, 2) == (mark < 2) as u16, 109); // is_not_marked
            check(query(tc2, c2, 3) == (mark == 1) as u16, 110);
            check(query(tc2, c2, 4) == (mark == 2) as u16, 111);
            check(query(tc2, c2, 5) == (mark >= 2) as u16, 112);
        }
        8 | 9 => {
            if r != 2 {
                check(c2 == (c & !0x4000) | if op == 8 { 0x4000 } else { 0 }, 113); // set_finalized: only that bit
                check(tc2 == tc, 113);
                check(query(tc2, c2, 6) == (op == 9) as u16, 114); // needs_finalization inverts it
                check(query(tc2, c2, 0) == c & 0x3FFF, 115); // the count is untouched
            }
        }
        10 | 11 => {
            if r != 2 {
                check(c2 == (c & !0x8000) | if op == 10 { 0x8000 } else { 0 } && tc2 == tc, 116);
                check(query(tc2, c2, 7) == (op == 10) as u16, 117);
                check(query(tc2, c2, 0) == c & 0x3FFF, 118);
            }
        }
        _ => {
            if r != 2 {
                check(tc2 == tc | 0x3FFF && c2 == c, 119); // set_dropped keeps the mark
                check(query(tc2, c2, 8) == 1, 120);
            }
        }
    }
    check(query(tc2, c2, 0) == c2 & 0x3FFF, 121);
    cover(1);
}

#[cfg(feature = "weak-ptrs")]
#[no_mangle]
pub fn h_weak_kernel() {
    use rust_cc::verif::weak_kernel::{apply, query};
    let w0 = any_u16();
    let op = any_below(4);
    let (w1, r) = apply(w0, op);
    match op {
        0 => {
            if w0 & 0x7FFF == 0x7FFF {
                check(r == 1 && w1 == w0, 101);
            } else {
                check(r == 0 && w1 == w0 + 1 && (w1 & 0x8000) == (w0 & 0x8000), 102);
            }
        }
        1 => {
            if w0 & 0x7FFF == 0 {
                check(r == 1 && w1 == w0, 103);
            } else {
                check(r == 0 && w1 == w0 - 1 && (w1 & 0x8000) == (w0 & 0x8000), 104);
            }
        }
        2 => check(w1 == w0 | 0x8000, 105),
        _ => check(w1 == w0 & 0x7FFF, 106),
    }
    check(query(w1, 0) == w1 & 0x7FFF, 107);
    check(query(w1, 1) == (w1 >> 15), 108);
    cover(1);
}

#[no_mangle]
pub fn h_count_twin() {
    use rust_cc::verif::counter_kernel::apply;
    let c = any_u16();
    assume(c & 0x3FFF != 0x3FFF);
    let (_, c2, _) = apply(0, c, 0);
    check(c2 == c + 1, 9999); // false at the limit: the solver must find c & 0x3FFF == 16382
}
