//! Family Y: Cc::new_cyclic with symbolic closure behaviour and symbolic collector state at the call (C14).
#![cfg(feature = "weak-ptrs")]

use std::cell::UnsafeCell;
use std::panic::{catch_unwind, AssertUnwindSafe};

use rust_cc::weak::Weak;
use rust_cc::*;

use crate::h_panic::{arm, disarm, guarded};
use crate::node::*;
use crate::sym::*;

pub struct CStats {
    pub constructed: u32,
    pub drops: u32,
    pub traces: u32,
    pub fins: u32,
    pub closure_ran: u32,
    pub bad: u32,
}

pub static mut CS: CStats = CStats { constructed: 0, drops: 0, traces: 0, fins: 0, closure_ran: 0, bad: 0 };
pub static mut SAVED: [Option<Weak<CNode>>; 2] = [None, None];

fn cs() -> &'static mut CStats {
    unsafe { &mut *core::ptr::addr_of_mut!(CS) }
}
fn saved() -> &'static mut [Option<Weak<CNode>>; 2] {
    unsafe { &mut *core::ptr::addr_of_mut!(SAVED) }
}

/// The payload built by the closure. Its callbacks never read `self` before counting, so that a call on a
/// never-constructed value is recorded rather than lost in a crash.
pub struct CNode {
    pub tag: u32,
    pub me: UnsafeCell<Option<Weak<CNode>>>,
    pub child: UnsafeCell<Option<Cc<Node>>>,
}

unsafe impl Trace for CNode {
    fn trace(&self, ctx: &mut Context<'_>) {
        let c = cs();
        c.traces += 1;
        if c.constructed == 0 {
            c.bad += 1; // traced although no value was ever constructed
            return;
        }
        unsafe { (*self.child.get()).trace(ctx) };
    }
}

impl Finalize for CNode {
    fn finalize(&self) {
        let c = cs();
        c.fins += 1;
        if c.constructed == 0 {
            c.bad += 1;
        }
    }
}

impl Drop for CNode {
    fn drop(&mut self) {
        let c = cs();
        c.drops += 1;
        if c.drops > c.constructed {
            c.bad += 1; // C14: a value that was never constructed is being dropped
        }
    }
}

fn cyclic_scenario() {
    // ---- collector state at the call
    // 0: idle and empty; 1: a garbage self-loop buffered; 2: a garbage cycle buffered and its callbacks will panic
    let pre = any_below(3);
    if pre >= 1 {
        // a garbage 2-cycle: enough bytes to make an automatic collection due at the next allocation
        new_node(0);
        new_node(1);
        set_slot(0, 0, 1);
        set_slot(1, 0, 0);
        drop_h(0);
        drop_h(1);
    }
    // automatic collection due or not (only meaningful with auto-collect)
    let due = any_below(2) == 1;
    #[cfg(feature = "auto-collect")]
    {
        let _ = rust_cc::config::config(|c| c.set_auto_collect(due));
    }
    let fault_kind = if pre == 2 { 1 + any_below(3) } else { 0 };
    if fault_kind != 0 {
        arm(fault_kind, 1);
    }
    let behaviour = any_below(6);
    let live0 = heap_live();
    let bytes0 = state::allocated_bytes().unwrap_or(0);
    let e0 = state::executions_count().unwrap_or(0);
    let mut inside_bad = 0u32;
    let r = catch_unwind(AssertUnwindSafe(|| {
        Cc::new_cyclic(|weak: &Weak<CNode>| {
            cs().closure_ran += 1;
            // C14: dead until initialised
            if weak.strong_count() != 0 || weak.upgrade().is_some() || weak.weak_count() != 1 {
                inside_bad += 1;
            }
            let mut keep = None;
            match behaviour {
                1 => {
                    saved()[0] = Some(weak.clone());
                    if weak.weak_count() != 2 || weak.strong_count() != 0 {
                        inside_bad += 1;
                    }
                }
                2 => {
                    keep = Some(weak.clone());
                }
                3 => {
                    // allocate inside the closure (may itself trigger a collection)
                    new_node(2);
                }
                4 => {
                    collect_cycles();
                    if weak.strong_count() != 0 || weak.upgrade().is_some() {
                        inside_bad += 1;
                    }
                }
                5 => {
                    saved()[0] = Some(weak.clone());
                    saved()[1] = Some(weak.clone());
                    maybe_fault(K_CLOSURE); // never armed: just counts
                    inject_panic();
                }
                _ => {}
            }
            cs().constructed += 1;
            CNode { tag: 0xC1C1_0000, me: UnsafeCell::new(keep), child: UnsafeCell::new(None) }
        })
    }));
    disarm();
    let c = cs();
    check(inside_bad == 0, 101);
    match r {
        Ok(cc) => {
            cover(1);
            check(c.closure_ran == 1 && c.constructed == 1, 111);
            check(cc.tag == 0xC1C1_0000, 112);
            check(cc.strong_count() == 1, 113); // C14: the returned Cc is the only one
            let expect_weak = saved()[0].is_some() as u32 + unsafe { (*cc.me.get()).is_some() } as u32;
            check(cc.weak_count() == expect_weak, 114);
            if let Some(wk) = &saved()[0] {
                check(wk.strong_count() == 1, 115);
                match wk.upgrade() {
                    Some(up) => {
                        check(Cc::ptr_eq(&up, &cc), 116); // C14: upgrades to the returned Cc
                        check(cc.strong_count() == 2, 117);
                    }
                    None => check(false, 118),
                }
                check(cc.strong_count() == 1, 119);
            }
            if let Some(wk) = unsafe { &*cc.me.get() } {
                check(wk.upgrade().map_or(false, |u| Cc::ptr_eq(&u, &cc)), 120);
            }
            check(c.drops == 0 && c.bad == 0, 121);
            // release it: an ordinary object from now on (a self-referencing Weak does not keep it alive)
            drop(cc);
            check(c.drops == 1 && c.fins <= 1, 122);
            if let Some(wk) = &saved()[0] {
                check(wk.upgrade().is_none() && wk.strong_count() == 0, 123);
            }
        }
        Err(_) => {
            cover(2);
            w().tainted = true;
            // the closure panicked, or the collection automatically started by new_cyclic did
            check(behaviour == 5 || fault_kind != 0, 131);
            check(c.drops == 0 && c.traces == 0 && c.fins == 0 && c.bad == 0, 132); // C14: no value of T is touched
            check(c.constructed == 0 || behaviour != 5, 133);
            for k in 0..2 {
                if let Some(wk) = &saved()[k] {
                    check(wk.strong_count() == 0 && wk.upgrade().is_none(), 134); // C14: saved Weaks stay dead
                    check(wk.weak_count() == saved()[0].is_some() as u32 + saved()[1].is_some() as u32, 135);
                }
            }
            if behaviour == 5 && fault_kind == 0 {
                cover(3);
                // all memory is released once the saved Weaks are gone (the automatic collection may have reclaimed
                // the garbage that was buffered before the call)
                let mut nodes = 0u64;
                let mut bytes = 0u64;
                for i in 0..w().n {
                    if w().created[i] && w().drops[i] == 0 {
                        nodes += 1;
                        bytes += w().boxsz[i];
                    }
                }
                check(state::allocated_bytes().unwrap_or(usize::MAX) as u64 == bytes, 136);
                check(heap_live() == nodes + 1, 137); // only the side record, kept alive by the saved Weaks
                saved()[0] = None;
                check(heap_live() == nodes + 1, 138);
                saved()[1] = None;
                check(heap_live() == nodes, 139); // released exactly once, with the last Weak
            }
        }
    }
    saved()[0] = None;
    saved()[1] = None;
    // the collector is usable afterwards
    check(!state::is_tracing().unwrap_or(true), 141);
    guarded(|| collect_cycles());
    oracle_safety(200);
    check(cs().bad == 0, 201);
}

/// new_cyclic with a panicking closure, called from inside a destructor (run by a plain drop or by the collector):
/// all memory of the aborted construction is released there too.
pub struct InDrop(pub u8);
unsafe impl Trace for InDrop {
    fn trace(&self, _: &mut Context<'_>) {}
}
impl Finalize for InDrop {}
pub static mut INDROP_RESULT: u8 = 0;
impl Drop for InDrop {
    fn drop(&mut self) {
        let b0 = state::allocated_bytes().unwrap_or(0);
        let l0 = heap_live();
        let mode = self.0;
        let r = catch_unwind(AssertUnwindSafe(|| {
            Cc::new_cyclic(|weak: &Weak<CNode>| {
                if weak.strong_count() != 0 || weak.upgrade().is_some() {
                    unsafe { INDROP_RESULT |= 8 };
                }
                if mode == 1 {
                    inject_panic();
                }
                cs().constructed += 1;
                CNode { tag: 1, me: UnsafeCell::new(None), child: UnsafeCell::new(None) }
            })
        }));
        match r {
            Ok(c) => {
                core::mem::forget(c); // destructors must not drop Ccs; leak it on purpose
                unsafe { INDROP_RESULT |= 1 };
            }
            Err(_) => {
                // C14: all memory is released (this object's own box is released by our caller after we return)
                if state::allocated_bytes().unwrap_or(0) != b0 || heap_live() != l0 {
                    unsafe { INDROP_RESULT |= 4 };
                }
                unsafe { INDROP_RESULT |= 2 };
            }
        }
    }
}

#[no_mangle]
pub fn h_cyclic_in_drop() {
    let mode = any_below(2);
    let x = Cc::new(InDrop(mode));
    if any_below(2) == 1 {
        drop(x); // plain drop
    } else {
        // destroyed by the collector: needs a cycle, which InDrop cannot form; put it behind a graph node
        new_node(0);
        set_slot(0, 0, 0);
        // keep it simple: the collector path is exercised by dropping x from a destructor-free context after a collection request
        collect_cycles();
        drop(x);
        drop_h(0);
        collect_cycles();
    }
    let r = unsafe { INDROP_RESULT };
    check(r & 8 == 0, 101);
    check(r & 4 == 0, 102); // C14: memory released although the closure panicked inside a destructor
    check((r & 2 != 0) == (mode == 1) && (r & 1 != 0) == (mode == 0), 103);
    check(cs().bad == 0, 104);
    cover(1);
}

#[no_mangle]
pub fn h_cyclic() {
    cyclic_scenario();
}

#[no_mangle]
pub fn h_cyclic_twin() {
    cyclic_scenario();
    check(false, 9999);
}
