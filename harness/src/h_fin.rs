//! Family F: finalizers with symbolic behaviours (mutate the graph, resurrect, allocate, release, collect).
//! Serves C05 C06 (and C01 C02 C04 through the shared oracles).

use rust_cc::*;

use crate::node::*;
use crate::sym::*;

fn build(n: usize, slots: usize) {
    for i in 0..n {
        new_node(i);
    }
    for i in 0..n {
        for s in 0..slots {
            let t = any_below(n as u8 + 1) as usize;
            if t < n {
                set_slot(i, s, t);
            }
        }
    }
}

/// Each node's weak slot: none / weak to self / weak to the next node.
#[cfg(feature = "weak-ptrs")]
fn build_weak(n: usize) {
    for i in 0..n {
        let c = any_below(3);
        if c != 0 {
            let t = if c == 1 { i } else { (i + 1) % n };
            if let (Some(owner), Some(target)) = (handle(i), handle(t)) {
                *owner.wslot() = Some(target.downgrade());
                w().wedge[i] = t as u8;
            }
        }
    }
}

fn fin_scenario(n: usize, slots: usize, nb_nodes: usize, nbehav: u8, pre_stash: bool, weak: bool, sym_hist: bool) {
    build(n, slots);
    #[cfg(feature = "weak-ptrs")]
    if weak {
        build_weak(n);
    }
    if pre_stash {
        // extra program-held pointers that finalizers may release later
        for i in 0..n {
            if any_below(2) == 1 {
                if let Some(c) = handle(i) {
                    let c = c.clone();
                    w().stash[i] = Some(c);
                }
            }
        }
    }
    for i in 0..nb_nodes {
        w().fin_act[i] = any_below(nbehav);
    }
    for i in 0..n {
        if !sym_hist || any_below(2) == 1 {
            clone_h(i);
            drop_h2(i);
        }
    }
    oracle_safety(100);
    for i in 0..n {
        if any_below(2) == 1 {
            drop_h(i); // reference-count path: may finalize, resurrect, drop
            oracle_safety(200);
            oracle_rc(200);
            crate::h_api::oracle_buffer(200);
        }
    }
    collect_quiescent(4, 300);
    oracle_safety(300);
    oracle_rc(300);
    oracle_complete(300);
    crate::h_api::oracle_buffer(300);
    cover(1);
    // ---- later history of whatever was resurrected / created / still held
    let mut any = false;
    for i in 0..MAXN {
        if w().stash[i].is_some() {
            any = true;
            match any_below(3) {
                1 => drop_stash(i),
                #[cfg(feature = "finalization")]
                2 => {
                    if let Some(c) = &mut w().stash[i] {
                        c.finalize_again();
                        w().rearm[i] += 1;
                        w().armed[i] = true;
                        w().ever_unreachable[i] = false; // held by the program right now
                    }
                    drop_stash(i);
                }
                _ => {}
            }
            oracle_safety(400);
            oracle_rc(400);
        }
    }
    if any {
        cover(2);
    }
    collect_quiescent(4, 500);
    oracle_safety(500);
    oracle_rc(500);
    oracle_complete(500);
    crate::h_api::oracle_buffer(500);
}

#[no_mangle]
pub fn h_fin_n2() {
    fin_scenario(2, 1, 2, F_NBEHAV, true, false, true);
}

#[no_mangle]
pub fn h_fin_n3() {
    fin_scenario(3, 1, 2, F_NBEHAV, false, false, false);
}

#[no_mangle]
pub fn h_fin_n3_stash() {
    fin_scenario(3, 1, 1, F_NBEHAV, true, false, false);
}

#[cfg(feature = "weak-ptrs")]
#[no_mangle]
pub fn h_fin_weak_n2() {
    fin_scenario(2, 1, 2, F_NBEHAV_WEAK, false, true, true);
}

#[cfg(feature = "weak-ptrs")]
#[no_mangle]
pub fn h_fin_weak_n3() {
    fin_scenario(3, 1, 1, F_NBEHAV_WEAK, false, true, false);
}

#[no_mangle]
pub fn h_fin_twin() {
    fin_scenario(2, 1, 1, 3, false, false, false);
    check(false, 9999);
}
