//! Family F: finalizers with symbolic behaviours (mutate the graph, resurrect, allocate, release, collect).
//! Serves C05 C06 (and C01 C02 C04 through the shared oracles).

use rust_cc::*;

use crate::node::*;
use crate::sym::*;

fn build(n: usize, slots: usize) {
    for i in 0..n {
        new_node(i);
    }
    for i in 0..n {
        for s in 0..slots {
            let t = any_below(n as u8 + 1) as usize;
            if t < n {
                set_slot(i, s, t);
            }
        }
    }
}

/// Each node's weak slot: none / weak to self / weak to the next node.
#[cfg(feature = "weak-ptrs")]
fn build_weak(n: usize) {
    for i in 0..n {
        let c = any_below(3);
        if c != 0 {
            let t = if c == 1 { i } else { (i + 1) % n };
            if let (Some(owner), Some(target)) = (handle(i), handle(t)) {
                *owner.wslot() = Some(target.downgrade());
                w().wedge[i] = t as u8;
            }
        }
    }
}

fn fin_scenario(n: usize, slots: usize, nb_nodes: usize, nbehav: u8, pre_stash: bool, weak: bool, sym_hist: bool) {
    build(n, slots);
    #[cfg(feature = "weak-ptrs")]
    if weak {
        build_weak(n);
    }
    if pre_stash {
        // extra program-held pointers that finalizers may release later
        for i in 0..n {
            if any_below(2) == 1 {
                if let Some(c) = handle(i) {
                    let c = c.clone();
                    w().stash[i] = Some(c);
                }
            }
        }
    }
    for i in 0..nb_nodes {
        w().fin_act[i] = any_below(nbehav);
    }
    for i in 0..n {
        if !sym_hist || any_below(2) == 1 {
            clone_h(i);
            drop_h2(i);
        }
    }
    oracle_safety(100);
    for i in 0..n {
        if any_below(2) == 1 {
            drop_h(i); // reference-count path: may finalize, resurrect, drop
            oracle_safety(200);
            oracle_rc(200);
            crate::h_api::oracle_buffer(200);
        }
    }
    collect_quiescent(4, 300);
    oracle_safety(300);
    oracle_rc(300);
    oracle_complete(300);
    crate::h_api::oracle_buffer(300);
    cover(1);
    // ---- later history of whatever was resurrected / created / still held
    let mut any = false;
    for i in 0..MAXN {
        if w().stash[i].is_some() {
            any = true;
            match any_below(if cfg!(feature = "weak-ptrs") && weak { 4 } else { 3 }) {
                1 => drop_stash(i),
                #[cfg(feature = "weak-ptrs")]
                3 => {
                    // first Weak of an object that may already be finalized, then release it
                    if let Some(c) = &w().stash[i] {
                        let wk = c.downgrade();
                        drop(wk);
                    }
                    drop_stash(i);
                }
                #[cfg(feature = "finalization")]
                2 => {
                    if let Some(c) = &mut w().stash[i] {
                        c.finalize_again();
                        w().rearm[i] += 1;
                        w().armed[i] = true;
                        w().ever_unreachable[i] = false; // held by the program right now
                    }
                    drop_stash(i);
                }
                _ => {}
            }
            oracle_safety(400);
            oracle_rc(400);
        }
    }
    if any {
        cover(2);
    }
    collect_quiescent(4, 500);
    oracle_safety(500);
    oracle_rc(500);
    oracle_complete(500);
    crate::h_api::oracle_buffer(500);
}

#[no_mangle]
pub fn h_fin_n2() {
    fin_scenario(2, 1, 2, F_NBEHAV, true, false, true);
}

#[no_mangle]
pub fn h_fin_n3() {
    fin_scenario(3, 1, 2, F_NBEHAV, false, false, false);
}

#[no_mangle]
pub fn h_fin_n3_stash() {
    fin_scenario(3, 1, 1, F_NBEHAV, true, false, false);
}

#[cfg(feature = "weak-ptrs")]
#[no_mangle]
pub fn h_fin_weak_n2() {
    fin_scenario(2, 1, 2, F_NBEHAV_WEAK, false, true, true);
}

#[cfg(feature = "weak-ptrs")]
#[no_mangle]
pub fn h_fin_weak_n3() {
    fin_scenario(3, 1, 1, F_NBEHAV_WEAK, false, true, false);
}

// ---- finalizers that keep releasing objects: more passes than the collector's cap of 10 per call
pub const CHAIN: usize = 24;
pub struct Link {
    pub k: usize,
    pub me: std::cell::UnsafeCell<Option<Cc<Link>>>,
}
pub static mut CHAIN_HELD: [Option<Cc<Link>>; CHAIN] = [const { None }; CHAIN];
pub static mut CHAIN_FIN: [u8; CHAIN] = [0; CHAIN];
pub static mut CHAIN_DROP: [u8; CHAIN] = [0; CHAIN];
unsafe impl Trace for Link {
    fn trace(&self, ctx: &mut Context<'_>) {
        unsafe { (*self.me.get()).trace(ctx) }
    }
}
impl Finalize for Link {
    fn finalize(&self) {
        unsafe {
            CHAIN_FIN[self.k] += 1;
            // release the next one of the same chain (even / odd): it becomes garbage only now, so every object costs the
            // collector another pass, and two objects are buffered again after every pass
            if self.k + 2 < CHAIN {
                let n = (*core::ptr::addr_of_mut!(CHAIN_HELD))[self.k + 2].take();
                drop(n);
            }
        }
    }
}
impl Drop for Link {
    fn drop(&mut self) {
        unsafe { CHAIN_DROP[self.k] += 1 };
    }
}

/// C06 (termination), C02 (completeness after repeated calls), C15 (at most one collection per creation).
#[no_mangle]
pub fn h_chain12() {
    unsafe {
        let held = &mut *core::ptr::addr_of_mut!(CHAIN_HELD);
        for k in 0..CHAIN {
            let c = Cc::new(Link { k, me: std::cell::UnsafeCell::new(None) });
            *c.me.get() = Some(c.clone()); // a self cycle
            held[k] = Some(c);
        }
        // how the first one is released: explicit collection, or a collection triggered by Cc::new
        let first = held[0].take();
        drop(first);
        let second = held[1].take();
        drop(second);
        let auto = any_below(2) == 1;
        #[cfg(feature = "auto-collect")]
        if auto {
            let with_buffered = any_below(2) == 1;
            if with_buffered {
                let _ = rust_cc::config::config(|c| c.set_buffered_objects_threshold(core::num::NonZeroUsize::new(1)));
            }
            let e0 = state::executions_count().unwrap_or(0);
            let c = Cc::new(1u8);
            let e1 = state::executions_count().unwrap_or(0);
            check(e1 - e0 <= 1, 101); // C15: at most once per creation
            drop(c);
        }
        // repeated until a call runs no finalizer and no destructor
        let mut calls = 0u32;
        loop {
            let before: u32 = (0..CHAIN).map(|k| CHAIN_FIN[k] as u32 + CHAIN_DROP[k] as u32).sum();
            collect_cycles();
            let after: u32 = (0..CHAIN).map(|k| CHAIN_FIN[k] as u32 + CHAIN_DROP[k] as u32).sum();
            calls += 1;
            if after == before {
                break;
            }
            if calls > 4 {
                check(false, 102); // C06: does not become quiescent
                break;
            }
        }
        for k in 0..CHAIN {
            if cfg!(feature = "finalization") {
                check(CHAIN_FIN[k] == 1 && CHAIN_DROP[k] == 1, 103); // C02: everything reclaimed; C05: once
            }
        }
        if cfg!(feature = "finalization") {
            check(state::allocated_bytes().unwrap_or(1) == 0 && heap_live() == 0, 104);
        }
        check(!state::is_tracing().unwrap_or(true), 105);
        cover(1);
    }
}

#[no_mangle]
pub fn h_fin_twin() {
    fin_scenario(2, 1, 1, 3, false, false, false);
    check(false, 9999);
}
