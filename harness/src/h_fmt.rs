//! Family FMT: Debug / Display / Pointer on Cc<T> forward to T with the caller's Formatter (C20, formatting clause).
//! Needs `core::fmt::write`, which only exists in the whole-program (fat LTO) IR: this family is run from that module.

use std::fmt::{self, Debug, Display, Formatter, Write};

use rust_cc::*;

use crate::sym::*;

#[derive(Clone, Copy, PartialEq)]
pub struct Seen {
    pub calls: u32,
    pub width: Option<usize>,
    pub precision: Option<usize>,
    pub fill: char,
    pub alternate: bool,
    pub plus: bool,
    pub zero: bool,
    pub align: u8,
}
pub static mut SEEN: Seen = Seen { calls: 0, width: None, precision: None, fill: ' ', alternate: false, plus: false, zero: false, align: 0 };
pub static mut FAIL: bool = false;

fn record(f: &Formatter<'_>) {
    unsafe {
        SEEN.calls += 1;
        SEEN.width = f.width();
        SEEN.precision = f.precision();
        SEEN.fill = f.fill();
        SEEN.alternate = f.alternate();
        SEEN.plus = f.sign_plus();
        SEEN.zero = f.sign_aware_zero_pad();
        SEEN.align = match f.align() {
            None => 0,
            Some(fmt::Alignment::Left) => 1,
            Some(fmt::Alignment::Right) => 2,
            Some(fmt::Alignment::Center) => 3,
        };
    }
}

pub struct FP(pub u32);
unsafe impl Trace for FP {
    fn trace(&self, _: &mut Context<'_>) {}
}
impl Finalize for FP {}
impl Display for FP {
    fn fmt(&self, f: &mut Formatter<'_>) -> fmt::Result {
        record(f);
        if unsafe { FAIL } {
            return Err(fmt::Error);
        }
        Display::fmt(&self.0, f)
    }
}
impl Debug for FP {
    fn fmt(&self, f: &mut Formatter<'_>) -> fmt::Result {
        record(f);
        if unsafe { FAIL } {
            return Err(fmt::Error);
        }
        Debug::fmt(&self.0, f) // `{:x?}` / `{:#?}` change what this prints
    }
}

/// Collects the output in a fixed buffer.
pub struct Sink {
    pub buf: [u8; 64],
    pub len: usize,
}
impl Write for Sink {
    fn write_str(&mut self, s: &str) -> fmt::Result {
        for b in s.bytes() {
            if self.len < 64 {
                self.buf[self.len] = b;
                self.len += 1;
            }
        }
        Ok(())
    }
}
fn same(a: &Sink, b: &Sink) -> bool {
    if a.len != b.len {
        return false;
    }
    for i in 0..a.len {
        if a.buf[i] != b.buf[i] {
            return false;
        }
    }
    true
}

macro_rules! forward {
    ($spec:literal, $cc:expr, $base:expr) => {{
        let mut s1 = Sink { buf: [0; 64], len: 0 };
        let mut s2 = Sink { buf: [0; 64], len: 0 };
        unsafe { SEEN.calls = 0 };
        let r1 = write!(s1, $spec, $cc);
        let seen1 = unsafe { SEEN };
        unsafe { SEEN.calls = 0 };
        let r2 = write!(s2, $spec, *$cc);
        let seen2 = unsafe { SEEN };
        check(seen1.calls == 1 && seen2.calls == 1, $base + 1); // forwarded exactly once
        check(seen1 == seen2, $base + 2); // with the caller's formatting options
        check(r1.is_ok() == r2.is_ok(), $base + 3); // and the value's result
        check(same(&s1, &s2), $base + 4); // identical output
    }};
}

#[no_mangle]
pub fn h_fmt_forward() {
    unsafe { FAIL = any_below(2) == 1 };
    let c = Cc::new(FP(255));
    match any_below(12) {
        0 => forward!("{}", c, 100),
        1 => forward!("{:5}", c, 110),
        2 => forward!("{:<7}", c, 120),
        3 => forward!("{:*^9}", c, 130),
        4 => forward!("{:+}", c, 140),
        5 => forward!("{:08}", c, 150),
        6 => forward!("{:#}", c, 160),
        7 => forward!("{:?}", c, 170),
        8 => forward!("{:#?}", c, 180),
        9 => forward!("{:x?}", c, 190),
        10 => forward!("{:#X?}", c, 200),
        _ => forward!("{:6.2}", c, 210),
    }
    // Pointer: the address of the value, as for a reference to it
    let mut s1 = Sink { buf: [0; 64], len: 0 };
    let mut s2 = Sink { buf: [0; 64], len: 0 };
    let _ = write!(s1, "{:p}", c);
    let _ = write!(s2, "{:p}", &*c as *const FP);
    check(same(&s1, &s2) && s1.len > 2, 301);
    cover(1);
}

#[no_mangle]
pub fn h_fmt_twin() {
    let c = Cc::new(FP(255));
    let mut s1 = Sink { buf: [0; 64], len: 0 };
    let _ = write!(s1, "{:5}", c);
    check(s1.len == 3, 9999); // false: the padded output has 5 bytes
}
