//! Family G: object graphs of symbolic shape, symbolic buffering history, symbolic release, collections.
//! Serves C01 C02 C03 C04 C05 C11 (see DESIGN.md).

use rust_cc::*;

use crate::node::*;
use crate::sym::*;

/// Builds an `n`-node graph with `slots` traced slots per node, every slot target symbolic.
fn build(n: usize, slots: usize, untraced: bool) {
    for i in 0..n {
        new_node(i);
    }
    for i in 0..n {
        for s in 0..slots {
            let t = any_below(n as u8 + 1) as usize;
            if t < n {
                set_slot(i, s, t);
            }
        }
        if untraced {
            let t = any_below(n as u8 + 1) as usize;
            if t < n {
                set_untraced(i, t);
            }
        }
    }
}

/// Symbolic buffering history of node `i`.
fn history(i: usize, choices: u8) {
    match any_below(choices) {
        1 => {
            clone_h(i);
            drop_h2(i); // one of two pointers dropped: buffered
        }
        2 => {
            clone_h(i);
            drop_h2(i);
            mark_alive(i);
        }
        _ => {}
    }
}

fn graph_scenario(n: usize, slots: usize, untraced: bool, hist: u8, phantom: bool, second_round: bool) {
    build(n, slots, untraced);
    oracle_safety(100);
    if phantom {
        for i in 0..n {
            let p = any_u16();
            assume(p <= 16000);
            add_phantom(i, p);
        }
    }
    for i in 0..n {
        history(i, hist);
    }
    oracle_safety(200);
    // release: which program pointers go away
    for i in 0..n {
        if any_below(2) == 1 {
            if phantom {
                let p = w().phantom[i];
                // remove the phantom references first (they stand for forgotten clones that are now dropped)
                if let Some(c) = handle(i) {
                    if p > 0 && rust_cc::verif::sub_phantom_strong(c, p) {
                        w().phantom[i] = 0;
                    }
                }
            }
            drop_h(i);
            oracle_safety(300);
            oracle_rc(300);
        }
    }
    collect_quiescent(3, 400);
    oracle_safety(400);
    oracle_rc(400);
    oracle_complete(400);
    cover(1);
    if second_round {
        // one more mutation of what is left, then collect again: exercises state left behind by the first collection
        let n8 = n as u8;
        let op = any_below(4);
        let i = any_below(n8) as usize;
        match op {
            0 => drop_h(i),
            1 => {
                let s = any_below(slots as u8) as usize;
                clear_slot_top(i, s);
            }
            2 => {
                let s = any_below(slots as u8) as usize;
                let j = any_below(n8) as usize;
                set_slot(i, s, j);
            }
            _ => {
                clone_h(i);
                drop_h2(i);
            }
        }
        oracle_safety(500);
        oracle_rc(500);
        collect_quiescent(3, 600);
        oracle_safety(600);
        oracle_rc(600);
        oracle_complete(600);
        cover(2);
    }
}

/// C11: the same kind of program with the exact buffered-set prediction and the buffer walk after every operation.
fn buffer_scenario(n: usize) {
    use crate::h_api::{oracle_buffer, oracle_buffer_exact};
    w().predict = true;
    build(n, 1, false);
    oracle_buffer(100);
    oracle_buffer_exact(100);
    for i in 0..n {
        history(i, 3);
        oracle_buffer(200);
        oracle_buffer_exact(200);
    }
    for i in 0..n {
        if any_below(2) == 1 {
            drop_h(i);
            oracle_buffer(300);
            oracle_buffer_exact(300);
            oracle_safety(300);
        }
    }
    let e0 = state::executions_count().unwrap_or(0);
    let nonempty = state::buffered_objects_count().unwrap_or(0) != 0;
    predict_collected_begin();
    collect_cycles();
    predict_collected_end();
    let e1 = state::executions_count().unwrap_or(0);
    check(e1 == e0 + 1, 401); // C11: one per collection actually started
    let _ = nonempty;
    oracle_buffer(400);
    oracle_buffer_exact(400);
    // one more mutation and the end state
    let i = any_below(n as u8) as usize;
    match any_below(4) {
        0 => drop_h(i),
        1 => clear_slot_top(i, 0),
        2 => {
            let j = any_below(n as u8) as usize;
            set_slot(i, 0, j);
        }
        _ => {
            clone_h(i);
            drop_h2(i);
        }
    }
    oracle_buffer(500);
    oracle_buffer_exact(500);
    collect_quiescent(3, 600);
    oracle_buffer(600);
    oracle_buffer_exact(600);
    oracle_safety(600);
    oracle_complete(600);
    cover(1);
}

#[no_mangle]
pub fn h_buffer_n3() {
    buffer_scenario(3);
}

#[no_mangle]
pub fn h_graph_small() {
    graph_scenario(2, 1, false, 2, false, false);
}

#[no_mangle]
pub fn h_graph_n2() {
    graph_scenario(2, 1, false, 3, true, true);
}

#[no_mangle]
pub fn h_graph_n3() {
    graph_scenario(3, 1, false, 2, false, true);
}

#[no_mangle]
pub fn h_graph_n3_untraced() {
    graph_scenario(3, 1, true, 2, false, false);
}

#[no_mangle]
pub fn h_graph_n3_s2() {
    graph_scenario(3, 2, false, 2, false, false);
}

/// Must-fail twin: same prefix, last obligation is false. The run fails closed if this passes.
#[no_mangle]
pub fn h_graph_twin() {
    graph_scenario(2, 1, false, 2, false, false);
    check(false, 9999);
}
