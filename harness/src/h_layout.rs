//! Family L: payload layouts (size x alignment grid) through every way a box is created and released (C03, C20 address
//! clauses), and the forwarding trait impls of Cc<T> on fully symbolic values (C20).

use std::borrow::Borrow;
use std::cell::UnsafeCell;
use std::cmp::Ordering;
use std::hash::{Hash, Hasher};

use rust_cc::*;
#[cfg(feature = "weak-ptrs")]
use rust_cc::weak::Weak;

use crate::sym::*;

macro_rules! aligned {
    ($name:ident, $a:expr) => {
        #[derive(Clone, Copy)]
        #[repr(C, align($a))]
        pub struct $name<const S: usize> {
            pub bytes: [u8; S],
        }
        impl<const S: usize> Pad for $name<S> {
            fn make(seed: u8) -> Self {
                let mut bytes = [0u8; S];
                let mut i = 0;
                while i < S {
                    bytes[i] = seed.wrapping_add(i as u8);
                    i += if S > 64 { 509 } else { 1 }; // sample large pads sparsely
                }
                $name { bytes }
            }
            fn ok(&self, seed: u8) -> bool {
                let mut i = 0;
                while i < S {
                    if self.bytes[i] != seed.wrapping_add(i as u8) {
                        return false;
                    }
                    i += if S > 64 { 509 } else { 1 };
                }
                true
            }
        }
    };
}
pub trait Pad: 'static {
    fn make(seed: u8) -> Self;
    fn ok(&self, seed: u8) -> bool;
}
aligned!(A1, 1);
aligned!(A2, 2);
aligned!(A8, 8);
aligned!(A64, 64);
aligned!(A4096, 4096);

pub static mut PAY_DROPS: u32 = 0;

pub struct Pay<T: Pad> {
    pub pad: T,
    pub slot: UnsafeCell<Option<Cc<Pay<T>>>>,
    #[cfg(feature = "weak-ptrs")]
    pub me: UnsafeCell<Option<Weak<Pay<T>>>>,
}
unsafe impl<T: Pad> Trace for Pay<T> {
    fn trace(&self, ctx: &mut Context<'_>) {
        unsafe { (*self.slot.get()).trace(ctx) }
    }
}
impl<T: Pad> Finalize for Pay<T> {}
impl<T: Pad> Drop for Pay<T> {
    fn drop(&mut self) {
        unsafe { PAY_DROPS += 1 };
    }
}

fn mk<T: Pad>(seed: u8) -> Pay<T> {
    Pay {
        pad: T::make(seed),
        slot: UnsafeCell::new(None),
        #[cfg(feature = "weak-ptrs")]
        me: UnsafeCell::new(None),
    }
}

fn addr_checks<T: Pad>(c: &Cc<Pay<T>>, seed: u8, base: u32) -> usize {
    let a = (&**c) as *const Pay<T> as usize;
    check(a % core::mem::align_of::<Pay<T>>() == 0, base + 1); // C20: correctly aligned
    let r: &Pay<T> = c.as_ref();
    let b: &Pay<T> = c.borrow();
    check(r as *const Pay<T> as usize == a && b as *const Pay<T> as usize == a, base + 2); // C20: one address
    check(c.pad.ok(seed), base + 3); // intact value
    a
}

fn layout_scenario<T: Pad>() {
    let drops0 = unsafe { PAY_DROPS };
    let c = Cc::new(mk::<T>(7));
    let a = addr_checks(&c, 7, 100);
    let other = Cc::new(mk::<T>(9));
    check(!Cc::ptr_eq(&c, &other), 104);
    check(state::allocated_bytes().unwrap_or(0) >= 2 * core::mem::size_of::<Pay<T>>(), 105);
    drop(other);
    check(unsafe { PAY_DROPS } == drops0 + 1, 106);
    let c2 = c.clone();
    check(Cc::ptr_eq(&c, &c2), 107); // C20: ptr_eq exactly for the same allocation
    check(addr_checks(&c2, 7, 110) == a, 108); // C20: stable across clones
    match any_below(if cfg!(feature = "weak-ptrs") { 6 } else { 3 }) {
        0 => {
            // plain reference counting
            drop(c2);
            check(addr_checks(&c, 7, 120) == a, 121);
            drop(c);
        }
        1 => {
            // a self cycle reclaimed by the collector
            unsafe { *c.slot.get() = Some(c2) };
            drop(c);
            check(unsafe { PAY_DROPS } == drops0 + 1, 131);
            collect_cycles();
        }
        2 => {
            // moved out by try_unwrap
            drop(c2);
            match c.try_unwrap() {
                Ok(v) => {
                    check(v.pad.ok(7), 141);
                    check(unsafe { PAY_DROPS } == drops0 + 1, 142);
                    drop(v);
                }
                Err(_) => check(false, 143),
            }
        }
        #[cfg(feature = "weak-ptrs")]
        3 => {
            // side record outlives the box
            let w = c.downgrade();
            drop(c2);
            drop(c);
            check(w.upgrade().is_none() && w.weak_count() == 1, 151);
            drop(w);
        }
        #[cfg(feature = "weak-ptrs")]
        4 => {
            // side record released with the box
            let w = c.downgrade();
            drop(w);
            unsafe { *c.slot.get() = Some(c2) };
            drop(c);
            collect_cycles();
        }
        #[cfg(not(feature = "weak-ptrs"))]
        _ => {
            drop(c2);
            drop(c);
        }
        #[cfg(feature = "weak-ptrs")]
        _ => {
            drop(c2);
            drop(c);
            let n = Cc::new_cyclic(|w: &Weak<Pay<T>>| {
                let p = mk::<T>(11);
                unsafe { *p.me.get() = Some(w.clone()) };
                p
            });
            addr_checks(&n, 11, 160);
            let up = unsafe { (*n.me.get()).as_ref().unwrap().upgrade() };
            check(up.map_or(false, |u| Cc::ptr_eq(&u, &n)), 161);
            drop(n);
            check(unsafe { PAY_DROPS } == drops0 + 3, 162);
            check(heap_live() == 0 && state::allocated_bytes().unwrap_or(1) == 0, 163);
            cover(1);
            return;
        }
    }
    check(unsafe { PAY_DROPS } == drops0 + 2, 171); // C03: each value dropped exactly once
    check(state::allocated_bytes().unwrap_or(1) == 0, 172); // C03: released before the call returns
    check(heap_live() == 0, 173); // boxes and side records, each exactly once (layout checked by the allocator model)
    cover(1);
}

macro_rules! grid {
    ($($idx:expr => $t:ty),+ $(,)?) => {
        fn dispatch(k: u8) {
            match k {
                $( $idx => layout_scenario::<$t>(), )+
                _ => {}
            }
        }
    };
}
grid! {
    0 => A1<0>, 1 => A1<1>, 2 => A1<2>, 3 => A1<8>, 4 => A1<24>, 5 => A1<100>, 6 => A1<4096>,
    7 => A2<0>, 8 => A2<2>, 9 => A2<8>, 10 => A2<24>, 11 => A2<100>, 12 => A2<4096>,
    13 => A8<0>, 14 => A8<8>, 15 => A8<24>, 16 => A8<104>, 17 => A8<4096>,
    18 => A64<0>, 19 => A64<64>, 20 => A64<128>, 21 => A64<4096>,
    22 => A4096<0>, 23 => A4096<4096>,
}
pub const GRID: u8 = 24;

#[no_mangle]
pub fn h_layout_grid() {
    dispatch(any_below(GRID));
}

/// Zero-sized payload without any field.
pub struct Zst;
unsafe impl Trace for Zst {
    fn trace(&self, _: &mut Context<'_>) {}
}
impl Finalize for Zst {}

macro_rules! zst_aligned {
    ($name:ident, $a:expr) => {
        #[repr(align($a))]
        pub struct $name;
        unsafe impl Trace for $name {
            fn trace(&self, _: &mut Context<'_>) {}
        }
        impl Finalize for $name {}
    };
}
zst_aligned!(Z16, 16);
zst_aligned!(Z64, 64);
zst_aligned!(Z4096, 4096);

fn zst_checks<T: Trace + 'static>(v1: T, v2: T, base: u32) {
    let c = Cc::new(v1);
    let a = (&*c) as *const T as usize;
    check(a % core::mem::align_of::<T>() == 0, base + 1); // aligned for T although T is zero-sized
    let d = c.clone();
    check((&*d) as *const T as usize == a && Cc::ptr_eq(&c, &d), base + 2);
    let e = Cc::new(v2);
    check(!Cc::ptr_eq(&c, &e), base + 3);
    drop(d);
    drop(e);
    match any_below(2) {
        0 => drop(c),
        _ => check(c.try_unwrap().is_ok(), base + 4),
    }
    check(heap_live() == 0 && state::allocated_bytes().unwrap_or(1) == 0, base + 5);
}

/// Small payloads whose box has trailing padding, moved out by try_unwrap (the allocation must be released with its real layout).
fn small_unwrap<T: Trace + Copy + PartialEq + 'static>(v: T, base: u32) {
    let b0 = state::allocated_bytes().unwrap_or(1);
    let c = Cc::new(v);
    check(state::allocated_bytes().unwrap_or(0) > b0, base + 1);
    match c.try_unwrap() {
        Ok(x) => check(x == v, base + 2),
        Err(_) => check(false, base + 3),
    }
    check(state::allocated_bytes().unwrap_or(1) == b0 && heap_live() == 0, base + 4);
}

#[no_mangle]
pub fn h_layout_small() {
    match any_below(7) {
        0 => zst_checks(Z16, Z16, 100),
        1 => zst_checks(Z64, Z64, 110),
        2 => zst_checks(Z4096, Z4096, 120),
        3 => small_unwrap::<u8>(any_u8(), 200),
        4 => small_unwrap::<u16>(any_u16(), 210),
        5 => small_unwrap::<[u8; 13]>([any_u8(); 13], 220),
        _ => small_unwrap::<[u16; 3]>([any_u16(); 3], 230),
    }
    cover(1);
}

#[no_mangle]
pub fn h_layout_zst() {
    let c = Cc::new(Zst);
    let d = c.clone();
    let a = (&*c) as *const Zst as usize;
    check((&*d) as *const Zst as usize == a, 101);
    check(Cc::ptr_eq(&c, &d), 102);
    let e = Cc::new(Zst);
    check(!Cc::ptr_eq(&c, &e), 103); // distinct allocations even for zero-sized values
    drop(d);
    match any_below(2) {
        0 => drop(c),
        _ => {
            check(c.try_unwrap().is_ok(), 104);
        }
    }
    drop(e);
    check(heap_live() == 0 && state::allocated_bytes().unwrap_or(1) == 0, 105);
    cover(1);
}

// ------------------------------------------------------------------------------------------------ forwarding impls

/// A hasher whose result depends on every byte and on its position.
pub struct SumHasher(pub u64);
impl Hasher for SumHasher {
    fn finish(&self) -> u64 {
        self.0
    }
    fn write(&mut self, bytes: &[u8]) {
        for b in bytes {
            self.0 = self.0.wrapping_mul(31).wrapping_add(*b as u64 + 1);
        }
    }
}
fn h<T: Hash>(t: &T) -> u64 {
    let mut s = SumHasher(7);
    t.hash(&mut s);
    s.finish()
}

fn ord_checks<T: Trace + Ord + Hash + Copy + 'static>(x: T, y: T, base: u32) {
    let a = Cc::new(x);
    let b = Cc::new(y);
    check((a == b) == (x == y), base + 1);
    check((a != b) == (x != y), base + 2);
    check(a.partial_cmp(&b) == x.partial_cmp(&y), base + 3);
    check((a < b) == (x < y) && (a <= b) == (x <= y), base + 4);
    check((a > b) == (x > y) && (a >= b) == (x >= y), base + 5);
    check(a.cmp(&b) == x.cmp(&y), base + 6);
    check(h(&a) == h(&x) && h(&b) == h(&y), base + 7);
    let a2 = a.clone();
    check(a == a2 && a.cmp(&a2) == Ordering::Equal, base + 8);
    let f: Cc<T> = Cc::from(x);
    check(*f == x, base + 9);
}

#[no_mangle]
pub fn h_forward_ints() {
    match any_below(4) {
        0 => ord_checks::<u32>(any_u32(), any_u32(), 100),
        1 => ord_checks::<i16>(any_u16() as i16, any_u16() as i16, 200),
        2 => ord_checks::<(i8, u8)>((any_u8() as i8, any_u8()), (any_u8() as i8, any_u8()), 300),
        _ => ord_checks::<[u8; 2]>([any_u8(), any_u8()], [any_u8(), any_u8()], 400),
    }
    check(*Cc::<u32>::default() == 0 && *Cc::<i16>::default() == 0, 501);
    cover(1);
}

#[no_mangle]
pub fn h_forward_f64() {
    let x = any_f64();
    let y = any_f64();
    let a = Cc::new(x);
    let b = Cc::new(y);
    check((a == b) == (x == y), 101); // incomparable values included
    check((a != b) == (x != y), 102);
    check(a.partial_cmp(&b) == x.partial_cmp(&y), 103);
    check((a < b) == (x < y) && (a <= b) == (x <= y), 104);
    check((a > b) == (x > y) && (a >= b) == (x >= y), 105);
    // the same allocation compared with itself behaves as the value compared with itself (NaN != NaN)
    let a2 = a.clone();
    check((a == a2) == (x == x), 106);
    check((a != a2) == (x != x), 107);
    check(a.partial_cmp(&a2) == x.partial_cmp(&x), 108);
    check(*Cc::<f64>::default() == 0.0, 109);
    cover(1);
}

#[no_mangle]
pub fn h_layout_twin() {
    layout_scenario::<A8<24>>();
    check(false, 9999);
}
