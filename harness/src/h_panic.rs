//! Family P: a user callback panics at a symbolic invocation index; the panic is caught and the program goes on.
//! Serves C07 (and, through the oracles that keep running afterwards, C01 C03 C04 C05).

use std::panic::{catch_unwind, AssertUnwindSafe};

use rust_cc::*;

use crate::node::*;
use crate::sym::*;

/// Runs `f`, catching a panic. Returns true if it panicked.
#[inline(never)]
pub fn guarded(f: impl FnOnce()) -> bool {
    let r = catch_unwind(AssertUnwindSafe(f));
    if r.is_err() {
        // a Trace panic changes no reference count: reference counting keeps reclaiming everything at once afterwards
        if w().fault_kind == K_TRACE && w().fault_fired > 0 && !w().tainted {
            w().tainted = true;
            w().in_collect = false;
        } else {
            taint_after_panic();
        }
        true
    } else {
        false
    }
}

/// Arms the fault plan: the `k`-th invocation (from now) of callback kind `kind` panics.
pub fn arm(kind: u8, k: u32) {
    let w = w();
    w.fault_kind = kind;
    w.count = [0; 6];
    w.fault_at = k;
}

pub fn disarm() {
    let w = w();
    w.fault_kind = 0;
    w.fault_at = 0;
}

/// After a caught panic the collector must be idle and usable.
pub fn oracle_idle(base: u32) {
    check(!state::is_tracing().unwrap_or(true), base + 41);
    let e0 = state::executions_count().unwrap_or(0);
    collect_cycles();
    let e1 = state::executions_count().unwrap_or(0);
    check(e1 == e0 + 1, base + 42); // a later collection can start
    // outside callbacks a unique Cc unwraps again (no phase flag is stuck)
    match Cc::new(5u8).try_unwrap() {
        Ok(v) => check(v == 5, base + 43),
        Err(_) => check(false, base + 43),
    }
    // and new objects are due for finalization again
    check(!Cc::new(6u8).already_finalized_compat() || !cfg!(feature = "finalization"), base + 44);
}

fn build(n: usize, slots: usize) {
    build_from(n, slots, 0)
}

/// Nodes below `first` get no outgoing edges (keeps the number of shapes small for the larger graphs).
fn build_from(n: usize, slots: usize, first: usize) {
    for i in 0..n {
        new_node(i);
    }
    for i in first..n {
        for s in 0..slots {
            let t = any_below(n as u8 + 1) as usize;
            if t < n {
                set_slot(i, s, t);
            }
        }
    }
}

fn continuation(n: usize, slots: usize, base: u32) {
    for i in 0..MAXN {
        if w().stash[i].is_some() && any_below(2) == 1 {
            guarded(|| drop_stash(i));
        }
    }
    let op = any_below(3);
    if op != 0 {
        let i = any_below(n as u8) as usize;
        if op == 1 {
            guarded(|| drop_h(i));
        } else {
            let s = any_below(slots as u8) as usize;
            guarded(|| clear_slot_top(i, s));
        }
    }
    oracle_safety(base);
    oracle_rc(base);
    guarded(|| collect_quiescent(3, base));
    oracle_safety(base + 50);
    oracle_rc(base + 50);
    oracle_complete(base + 50);
}

fn panic_scenario(n: usize, slots: usize, sym_hist: bool, kmax: u8, two_faults: bool) {
    panic_scenario_k(n, slots, sym_hist, kmax, two_faults, 3)
}

fn panic_scenario_k(n: usize, slots: usize, sym_hist: bool, kmax: u8, two_faults: bool, kinds: u8) {
    panic_scenario_f(n, slots, sym_hist, kmax, two_faults, kinds, 0)
}

fn panic_scenario_f(n: usize, slots: usize, sym_hist: bool, kmax: u8, two_faults: bool, kinds: u8, first: usize) {
    panic_scenario_g(n, slots, sym_hist, kmax, two_faults, kinds, first, false)
}

fn panic_scenario_g(n: usize, slots: usize, sym_hist: bool, kmax: u8, two_faults: bool, kinds: u8, first: usize, with_fin: bool) {
    build_from(n, slots, first);
    for i in 0..n {
        if !sym_hist || any_below(2) == 1 {
            clone_h(i);
            drop_h2(i);
        }
    }
    oracle_safety(100);
    if with_fin {
        // the finalizers of nodes 0 and 1 may resurrect their object; the finalize fault may fire after that action
        for i in 0..2.min(n) {
            w().fin_act[i] = if any_below(2) == 1 { F_STASH_SELF } else { F_NONE };
        }
        w().fault_late = any_below(2) == 1;
    }
    // fault plan: kind is a control choice, the crash index is a solver variable compared against the running counter
    let kind = 1 + any_below(kinds);
    let k = any_u8();
    assume(k >= 1 && k <= kmax);
    arm(kind, k as u32);
    // release (reference-count path: finalizers and destructors run here)
    let mut panicked = false;
    for i in 0..n {
        if any_below(2) == 1 {
            panicked |= guarded(|| drop_h(i));
            oracle_safety(200);
            oracle_rc(200);
        }
    }
    // collector path
    let fired_before = w().fault_fired;
    let e0 = state::executions_count().unwrap_or(0);
    let p = guarded(|| collect_cycles());
    check(p == (w().fault_fired > fired_before), 391); // the panic reaches the caller, nothing else does
    check(state::executions_count().unwrap_or(0) == e0 + 1, 393); // C11: a collection that was started counts, even if it unwinds
    panicked |= p;
    disarm();
    check(panicked == (w().fault_fired > 0), 392);
    if panicked {
        cover(10 + kind as u32);
    }
    oracle_idle(300);
    oracle_safety(300);
    oracle_rc(300);
    crate::h_api::oracle_buffer(300); // C11: list/size consistency holds for all programs, also after an unwound collection
    if two_faults {
        let kind2 = 1 + any_below(3);
        let k2 = any_u8();
        assume(k2 >= 1 && k2 <= kmax);
        arm(kind2, k2 as u32);
        let i = any_below(n as u8) as usize;
        guarded(|| drop_h(i));
        guarded(|| collect_cycles());
        disarm();
        oracle_idle(400);
        oracle_safety(400);
    }
    continuation(n, slots, 500);
    cover(1);
}

#[no_mangle]
pub fn h_panic_n2() {
    panic_scenario(2, 1, true, 8, false);
}

#[no_mangle]
pub fn h_panic_n3() {
    panic_scenario(3, 1, false, 8, false);
}

#[no_mangle]
pub fn h_panic_n3_hist() {
    panic_scenario(3, 1, true, 10, false);
}

#[no_mangle]
pub fn h_panic_n2_two() {
    panic_scenario(2, 1, true, 6, true);
}

/// Four objects, Trace panics only: several objects are still buffered behind the one whose trace panics.
#[no_mangle]
pub fn h_panic_n4_trace() {
    panic_scenario_k(4, 1, false, 6, false, 1);
}

/// The same with edges only out of the two objects buffered last (traced first): small enough for the quick tier.
#[no_mangle]
pub fn h_panic_n4_q() {
    panic_scenario_f(4, 1, false, 4, false, 1, 2);
}

/// Finalizers that resurrect their object combined with a finalize fault before or after the resurrection.
#[no_mangle]
pub fn h_panic_fin_n2() {
    panic_scenario_g(2, 1, true, 6, false, 3, 0, true);
}

#[no_mangle]
pub fn h_panic_twin() {
    panic_scenario(2, 1, false, 4, false);
    check(false, 9999);
}
