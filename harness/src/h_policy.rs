//! Family A: the automatic-collection policy (C15): the trigger/threshold kernel from an arbitrary configuration,
//! and its wiring into Cc::new.
#![cfg(feature = "auto-collect")]

use std::cell::UnsafeCell;
use std::num::NonZeroUsize;

use rust_cc::config::config;
use rust_cc::*;

use crate::node::*;
use crate::sym::*;

fn is_pow2_multiple_of_100(t: u64) -> bool {
    t % 100 == 0 && (t / 100).is_power_of_two()
}

/// Trigger kernel: every field a solver variable.
#[no_mangle]
pub fn h_policy_trigger() {
    let thr = any_u64();
    let bthr = any_u64();
    let auto = any_bool();
    let allocated = any_u64();
    let buffered = any_u64();
    let r = rust_cc::verif::policy_should_collect(thr as usize, bthr as usize, auto, allocated as usize, buffered as usize);
    let expect = auto && (allocated > thr || (bthr != 0 && buffered > bthr));
    check(r == expect, 101);
    cover(1);
}

/// Threshold kernel: one `adjust` from an arbitrary valid configuration (threshold 100 * 2^j, j decided at its source;
/// allocated bytes and adjustment percent are solver variables). One inductive step covers workloads of any length.
fn policy_adjust(jmax: u8) {
    policy_adjust_range(0, jmax)
}

fn policy_adjust_range(jmin: u8, jmax: u8) {
    let j = (jmin + any_below(jmax - jmin + 1)) as u32;
    let thr: u64 = 100u64 << j;
    let allocated = any_u64();
    assume(allocated < (1u64 << 62)); // stated bound: beyond it `threshold << 1` overflows usize
    let p = any_f64();
    assume(p >= 0.0 && p <= 1.0);
    let t2 = rust_cc::verif::policy_adjust(thr as usize, p, allocated as usize) as u64;
    check(is_pow2_multiple_of_100(t2), 201); // a power-of-two multiple of the initial value
    check(t2 >= 100, 202);
    check(t2 > allocated, 203); // strictly above allocated bytes
    if p != 0.0 {
        // not left needlessly high
        let ok = (allocated as f64) > (t2 as f64) * p || (t2 >> 1) <= allocated || t2 == 100;
        check(ok, 204);
    }
    // monotone in the right direction: never raised unless needed, never lowered below what is needed
    if allocated < thr {
        check(t2 <= thr, 205);
    } else {
        check(t2 > thr, 206);
    }
    cover(1);
}

#[no_mangle]
pub fn h_policy_adjust_small() {
    policy_adjust(12);
}

#[no_mangle]
pub fn h_policy_adjust_mid() {
    policy_adjust(24);
}

#[no_mangle]
pub fn h_policy_adjust_hi1() {
    policy_adjust_range(25, 40);
}

#[no_mangle]
pub fn h_policy_adjust_hi2() {
    policy_adjust_range(41, 57);
}

#[no_mangle]
pub fn h_policy_adjust_full() {
    policy_adjust(57);
}

pub struct Blob<const N: usize> {
    pub bytes: [u8; N],
    pub me: UnsafeCell<Option<Cc<Blob<N>>>>,
}
unsafe impl<const N: usize> Trace for Blob<N> {
    fn trace(&self, ctx: &mut Context<'_>) {
        unsafe { (*self.me.get()).trace(ctx) }
    }
}
impl<const N: usize> Finalize for Blob<N> {}

fn expected_trigger() -> bool {
    let (auto, bthr) = config(|c| (c.auto_collect(), c.buffered_objects_threshold().map_or(0, |x| x.get()))).unwrap();
    let thr = rust_cc::verif::bytes_threshold().unwrap();
    let allocated = state::allocated_bytes().unwrap();
    let buffered = state::buffered_objects_count().unwrap();
    auto && (allocated > thr || (bthr != 0 && buffered > bthr))
}

fn threshold_invariant(base: u32) {
    let thr = rust_cc::verif::bytes_threshold().unwrap() as u64;
    let allocated = state::allocated_bytes().unwrap() as u64;
    let p = config(|c| c.adjustment_percent()).unwrap();
    check(is_pow2_multiple_of_100(thr) && thr >= 100, base + 1);
    check(thr > allocated, base + 2);
    if p != 0.0 {
        check((allocated as f64) > (thr as f64) * p || (thr >> 1) <= allocated || thr == 100, base + 3);
    }
}

/// Creates one object of a symbolic size class and checks the trigger decision against the documented policy.
fn alloc_step<const N: usize>(keep: &mut [Option<Cc<Blob<N>>>; 4], slot: usize, garbage: bool, base: u32) {
    let e0 = state::executions_count().unwrap();
    let expect = expected_trigger();
    let c = Cc::new(Blob::<N> { bytes: [0; N], me: UnsafeCell::new(None) });
    let e1 = state::executions_count().unwrap();
    check(e1 - e0 == expect as usize, base + 1); // exactly when the policy says so, at most once, never when disabled
    if e1 != e0 {
        cover(2);
        // after every collection the threshold invariant holds (the new object is not allocated yet when it is adjusted,
        // so compare against the bytes before this allocation is counted: re-evaluate after subtracting it)
    }
    if garbage {
        unsafe { *c.me.get() = Some(c.clone()) };
        drop(c); // a buffered garbage self-loop
    } else {
        keep[slot] = Some(c);
    }
}

fn change_config(c: u8) {
    match c {
        1 => {
            let _ = config(|c| c.set_auto_collect(false));
        }
        2 => {
            let _ = config(|c| c.set_auto_collect(true));
        }
        3 => {
            let _ = config(|c| c.set_buffered_objects_threshold(NonZeroUsize::new(1)));
        }
        4 => {
            // the arithmetic in the percent is decided by the kernel harness; the wiring uses the corner values
            let p = match any_below(3) {
                0 => 0.0,
                1 => 0.5,
                _ => 1.0,
            };
            let _ = config(|c| c.set_adjustment_percent(p));
        }
        _ => {}
    }
}

fn policy_wiring(steps: u32) {
    let mut keep_s: [Option<Cc<Blob<8>>>; 4] = [None, None, None, None];
    let mut keep_l: [Option<Cc<Blob<200>>>; 4] = [None, None, None, None];
    change_config(any_below(5)); // initial configuration
    let change_at = any_below(steps as u8 + 1) as u32; // one more configuration change at a symbolic point (or never)
    let change_to = if change_at < steps { any_below(4) + 1 } else { 0 };
    for step in 0..steps {
        if step == change_at {
            change_config(change_to);
        }
        let garbage = any_below(2) == 1;
        if any_below(2) == 1 {
            alloc_step::<200>(&mut keep_l, step as usize, garbage, 300 + step * 10);
        } else {
            alloc_step::<8>(&mut keep_s, step as usize, garbage, 300 + step * 10);
        }
        if any_below(2) == 0 {
            collect_cycles();
            threshold_invariant(400); // after every collection, whatever the configuration
            cover(3);
        }
    }
    // release some memory and collect: the threshold is not left needlessly high
    if any_below(2) == 1 {
        keep_l = [None, None, None, None];
    }
    collect_cycles();
    threshold_invariant(500);
    cover(1);
    core::mem::forget(keep_s);
    core::mem::forget(keep_l);
}

#[no_mangle]
pub fn h_policy_wiring() {
    policy_wiring(3);
}

#[no_mangle]
pub fn h_policy_wiring4() {
    policy_wiring(4);
}

#[no_mangle]
pub fn h_policy_twin() {
    let thr = any_u64();
    let allocated = any_u64();
    let r = rust_cc::verif::policy_should_collect(thr as usize, 0, true, allocated as usize, 0);
    check(r == (allocated >= thr), 9999); // wrong on purpose at allocated == thr
}
