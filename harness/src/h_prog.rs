//! Family PROG: symbolic programs. Instead of phased scenarios, K steps each pick any operation on any object - the closest
//! bounded rendering of "for all finite sequences of API calls". After EVERY step: safety, Rc-equivalence, exact strong counts, the
//! buffer walk and (finalizer-free programs) the exact buffered-set prediction; at the end completeness.
//! Serves C01 C02 C04 C11 (and C08 C09 with the weak operations).

use rust_cc::*;

use crate::h_api::{oracle_buffer, oracle_buffer_exact};
use crate::node::*;
use crate::sym::*;

const N: usize = 3;

fn step(weak: bool, base: u32) {
    let nops: u8 = if weak { 9 } else { 6 };
    let op = any_below(nops);
    if op == 0 {
        // a collection at any point
        let e0 = state::executions_count().unwrap_or(0);
        predict_collected_begin();
        collect_cycles();
        predict_collected_end();
        check(state::executions_count().unwrap_or(0) == e0 + 1, base + 1);
    } else {
        let i = any_below(N as u8) as usize;
        match op {
            1 => drop_h(i),
            2 => {
                if w().h2[i].is_some() {
                    drop_h2(i)
                } else {
                    clone_h(i)
                }
            }
            3 => mark_alive(i),
            4 => {
                let j = any_below(N as u8) as usize;
                set_slot(i, 0, j);
            }
            5 => clear_slot_top(i, 0),
            #[cfg(feature = "weak-ptrs")]
            6 => {
                // downgrade (or release the Weak if there is one)
                if w().w[i].is_some() {
                    let x = w().w[i].take();
                    drop(x);
                } else if let Some(h) = handle(i) {
                    predict_alive(i);
                    w().w[i] = Some(h.downgrade());
                }
            }
            #[cfg(feature = "weak-ptrs")]
            7 => {
                // upgrade into the second handle
                if w().h2[i].is_none() {
                    let up = w().w[i].as_ref().and_then(|x| x.upgrade());
                    if up.is_some() {
                        predict_alive(i);
                    }
                    w().h2[i] = up;
                }
            }
            #[cfg(feature = "weak-ptrs")]
            _ => {
                // clone the Weak
                if w().w2[i].is_none() {
                    w().w2[i] = w().w[i].as_ref().map(|x| x.clone());
                } else {
                    let x = w().w2[i].take();
                    drop(x);
                }
            }
            #[cfg(not(feature = "weak-ptrs"))]
            _ => {}
        }
    }
    oracle_safety(base);
    oracle_rc(base);
    oracle_buffer(base);
    if !weak {
        oracle_buffer_exact(base);
    }
    #[cfg(feature = "weak-ptrs")]
    if weak {
        crate::h_weak::oracle_weak(base);
    }
}

fn program(k: u32, weak: bool) {
    w().predict = !weak;
    for i in 0..N {
        new_node(i);
    }
    for s in 0..k {
        step(weak, 1000 + s * 100);
    }
    // the end: everything the program still holds is released, then collect until quiescent
    for i in 0..N {
        drop_h(i);
        drop_h2(i);
    }
    predict_collected_begin();
    collect_quiescent(3, 5000);
    predict_collected_end();
    oracle_safety(5000);
    oracle_rc(5000);
    oracle_complete(5000);
    oracle_buffer(5000);
    #[cfg(feature = "weak-ptrs")]
    {
        crate::h_weak::oracle_weak(5000);
        for i in 0..N {
            w().w[i] = None;
            w().w2[i] = None;
        }
    }
    check(heap_live() == 0, 5099);
    cover(1);
}

#[no_mangle]
pub fn h_prog_k3() {
    program(3, false);
}

#[no_mangle]
pub fn h_prog_k4() {
    program(4, false);
}

#[no_mangle]
pub fn h_prog_k5() {
    program(5, false);
}

#[cfg(feature = "weak-ptrs")]
#[no_mangle]
pub fn h_prog_weak_k3() {
    program(3, true);
}

#[cfg(feature = "weak-ptrs")]
#[no_mangle]
pub fn h_prog_weak_k4() {
    program(4, true);
}

#[no_mangle]
pub fn h_prog_twin() {
    program(1, false);
    check(false, 9999);
}
