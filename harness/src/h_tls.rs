//! Family TLS: thread teardown (the second clause of C19). A user thread-local holds Ccs (unique, buffered, in a cycle) when the
//! thread exits; the engine runs the registered thread-local destructors after the entry point returns, in LIFO order, so the
//! symbolic choice of which thread-local is touched first yields both relative destruction orders.

use std::cell::UnsafeCell;

use rust_cc::*;

use crate::node::*;
use crate::sym::*;

pub struct Holder {
    pub held: UnsafeCell<[Option<Cc<Node>>; 3]>,
    pub twin: UnsafeCell<bool>,
}

impl Drop for Holder {
    fn drop(&mut self) {
        // runs during thread teardown, before or after the collector's own thread-locals are destroyed
        cover(1);
        let w = w();
        for i in 0..w.n {
            check(w.drops[i] <= 1, 901);
        }
        // the APIs must stay callable (returning errors at worst) while the thread is being torn down
        let _ = state::buffered_objects_count();
        let _ = state::allocated_bytes();
        collect_cycles();
        let held = unsafe { &mut *self.held.get() };
        for k in 0..3 {
            if let Some(c) = &held[k] {
                check(c.canary == CANARY + c.id as u32, 902); // still intact while we own a pointer to it
            }
        }
        if unsafe { *self.twin.get() } {
            check(false, 9999);
        }
        // the fields (the Ccs) are released right after this returns
    }
}

thread_local! {
    static USER: Holder = Holder { held: UnsafeCell::new([None, None, None]), twin: UnsafeCell::new(false) };
}

fn tls_scenario(twin: bool) {
    let user_first = any_below(2) == 1;
    if user_first {
        USER.with(|h| unsafe { *h.twin.get() = twin }); // registers the user's destructor before the collector's
    }
    new_node(0);
    new_node(1);
    new_node(2);
    // 0 <-> 1 cycle, 2 unique
    set_slot(0, 0, 1);
    set_slot(1, 0, 0);
    // buffered or not
    for i in 0..3 {
        if any_below(2) == 1 {
            clone_h(i);
            drop_h2(i);
        }
    }
    USER.with(|h| {
        unsafe { *h.twin.get() = twin };
        let held = unsafe { &mut *h.held.get() };
        // which pointers the thread-local keeps until the thread exits
        for i in 0..3 {
            if any_below(2) == 1 {
                held[i] = w().h[i].take();
            }
        }
    });
    // the rest is released now (some of it stays buffered garbage at thread exit)
    for i in 0..3 {
        drop_h(i);
    }
    if any_below(2) == 1 {
        collect_cycles();
    }
    oracle_safety(100);
}

#[no_mangle]
pub fn h_tls() {
    tls_scenario(false);
}

#[no_mangle]
pub fn h_tls_twin() {
    tls_scenario(true);
}
