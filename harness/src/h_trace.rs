//! Family T: the built-in Trace / Finalize impls (C17). One generated instantiation per container type; inside each,
//! variants, lengths, borrow state and the position that carries the cycle are symbolic.

use std::cell::{Cell, RefCell, UnsafeCell};
use std::marker::PhantomData;
use std::mem::ManuallyDrop;
use std::panic::AssertUnwindSafe;

use rust_cc::*;

use crate::sym::*;

pub const ML: usize = 33;

pub struct TStats {
    pub leaf_drops: [u8; ML],
    pub holder_drops: u32,
    pub fin_calls: [u8; ML],
}
pub static mut TS: TStats = TStats { leaf_drops: [0; ML], holder_drops: 0, fin_calls: [0; ML] };
fn ts() -> &'static mut TStats {
    unsafe { &mut *core::ptr::addr_of_mut!(TS) }
}

/// A leaf object; `back` optionally points back to the holder so that a cycle runs through the leaf's position.
pub struct Leaf {
    pub pos: usize,
    pub back: UnsafeCell<Option<Box<dyn Trace>>>,
}
unsafe impl Trace for Leaf {
    fn trace(&self, ctx: &mut Context<'_>) {
        unsafe { (*self.back.get()).trace(ctx) }
    }
}
impl Finalize for Leaf {}
impl Drop for Leaf {
    fn drop(&mut self) {
        ts().leaf_drops[self.pos] += 1;
    }
}

pub trait HolderDyn: Trace {}

/// Anything that keeps a borrow alive until dropped.
pub trait Guard {}
impl<T: ?Sized> Guard for T {}

/// The object that owns the container under test.
pub struct Holder<C: Trace + 'static> {
    pub c: C,
}
unsafe impl<C: Trace + 'static> Trace for Holder<C> {
    fn trace(&self, ctx: &mut Context<'_>) {
        self.c.trace(ctx);
    }
}
impl<C: Trace + 'static> Finalize for Holder<C> {}
impl<C: Trace + 'static> HolderDyn for Holder<C> {}
impl<C: Trace + 'static> Drop for Holder<C> {
    fn drop(&mut self) {
        ts().holder_drops += 1;
    }
}

/// A plain value whose finalizer counts (for the Finalize forwarding clause).
pub struct FinProbe(pub usize);
unsafe impl Trace for FinProbe {
    fn trace(&self, _: &mut Context<'_>) {}
}
impl Finalize for FinProbe {
    fn finalize(&self) {
        ts().fin_calls[self.0] += 1;
    }
}

fn leaf(pos: usize) -> Cc<Leaf> {
    Cc::new(Leaf { pos, back: UnsafeCell::new(None) })
}

/// Drives one container instantiation.
/// `k` leaves are created; `make` moves one Cc per leaf into the container (owned = the positions the container's trace
/// must report; a leaf whose position is not owned by the container - e.g. the `None`/`Err` side - is dropped by `make`).
/// `owned[p]` says whether position p is in the container; `hidden` = a RefCell inside is currently borrowed.
fn drive<C: Trace + 'static>(k: usize, make: impl FnOnce(&mut [Option<Cc<Leaf>>; ML]) -> C, owned: &[bool; ML], borrow: impl for<'a> FnOnce(&'a C) -> Option<Box<dyn Guard + 'a>>) {
    let mut leaves: [Option<Cc<Leaf>>; ML] = [const { None }; ML];
    let mut hold: [Option<Cc<Leaf>>; ML] = [const { None }; ML];
    for p in 0..k {
        let l = leaf(p);
        hold[p] = Some(l.clone());
        leaves[p] = Some(l);
    }
    let c = make(&mut leaves);
    // whatever `make` left behind is not owned by the container
    for p in 0..k {
        leaves[p] = None;
    }
    let h: Cc<Holder<C>> = Cc::new(Holder { c });
    // ---- phase 1: exact number of reports per position.
    // Give every leaf a tracing counter of 0 (buffer it and let a collection process it as a root) ...
    for p in 0..k {
        let x = hold[p].as_ref().unwrap().clone();
        drop(x);
    }
    collect_cycles();
    for p in 0..k {
        check(rust_cc::verif::snapshot(hold[p].as_ref().unwrap()).tracing == 0, 101);
    }
    // ... then buffer the holder and collect: the counting phase traces the holder once
    let guard = borrow(&h.c);
    let hidden = guard.is_some();
    let x = h.clone();
    drop(x);
    collect_cycles();
    for p in 0..k {
        let snap = rust_cc::verif::snapshot(hold[p].as_ref().unwrap());
        let expect = if owned[p] && !hidden { 1 } else { 0 };
        check(snap.tracing == expect, 102); // C17: every owned Cc reported exactly once, nothing else
        check(snap.strong == if owned[p] { 2 } else { 1 }, 103);
        check(ts().leaf_drops[p] == 0, 104); // never reclaimed early
    }
    check(ts().holder_drops == 0, 105);
    drop(guard);
    // ---- phase 2: a cycle routed through one (symbolic) owned position is reclaimed; a live leaf never is
    let mut nowned = 0u8;
    for p in 0..k {
        if owned[p] {
            nowned += 1;
        }
    }
    if nowned > 0 {
        let sel = any_below(nowned);
        let mut idx = 0u8;
        let mut pos = 0;
        for p in 0..k {
            if owned[p] {
                if idx == sel {
                    pos = p;
                }
                idx += 1;
            }
        }
        let hd: Box<dyn Trace> = Box::new(h.clone());
        unsafe { *hold[pos].as_ref().unwrap().back.get() = Some(hd) };
        // keep one other leaf alive from outside (if any): it must survive
        let keep = if k > 1 { (pos + 1) % k } else { ML };
        for p in 0..k {
            if p != keep {
                hold[p] = None;
            }
        }
        drop(h);
        collect_cycles();
        collect_cycles();
        check(ts().holder_drops == 1, 111); // the cycle holder -> container[pos] -> leaf -> holder is reclaimed
        for p in 0..k {
            if p == keep {
                check(ts().leaf_drops[p] == 0, 112); // never reclaimed early
                check(hold[p].as_ref().unwrap().pos == p, 113);
            } else {
                check(ts().leaf_drops[p] == 1, 114);
            }
        }
        cover(2);
    } else {
        drop(h);
        check(ts().holder_drops == 1, 115);
    }
    cover(1);
}

fn take(l: &mut [Option<Cc<Leaf>>; ML], p: usize) -> Cc<Leaf> {
    l[p].take().unwrap()
}

fn no_borrow<'a, C>(_: &'a C) -> Option<Box<dyn Guard + 'a>> {
    None
}

fn owned_first(k: usize) -> [bool; ML] {
    let mut o = [false; ML];
    for p in 0..k {
        o[p] = true;
    }
    o
}

macro_rules! tuple_harness {
    ($name:ident, $k:expr, $($idx:expr),+) => {
        #[no_mangle]
        pub fn $name() {
            drive($k, |l| ($(take(l, $idx),)+), &owned_first($k), no_borrow);
        }
    };
}
tuple_harness!(h_trace_tuple1, 1, 0);
tuple_harness!(h_trace_tuple2, 2, 0, 1);
tuple_harness!(h_trace_tuple3, 3, 0, 1, 2);
tuple_harness!(h_trace_tuple4, 4, 0, 1, 2, 3);
tuple_harness!(h_trace_tuple5, 5, 0, 1, 2, 3, 4);
tuple_harness!(h_trace_tuple6, 6, 0, 1, 2, 3, 4, 5);
tuple_harness!(h_trace_tuple7, 7, 0, 1, 2, 3, 4, 5, 6);
tuple_harness!(h_trace_tuple8, 8, 0, 1, 2, 3, 4, 5, 6, 7);
tuple_harness!(h_trace_tuple9, 9, 0, 1, 2, 3, 4, 5, 6, 7, 8);
tuple_harness!(h_trace_tuple10, 10, 0, 1, 2, 3, 4, 5, 6, 7, 8, 9);
tuple_harness!(h_trace_tuple11, 11, 0, 1, 2, 3, 4, 5, 6, 7, 8, 9, 10);
tuple_harness!(h_trace_tuple12, 12, 0, 1, 2, 3, 4, 5, 6, 7, 8, 9, 10, 11);

macro_rules! array_harness {
    ($name:ident, $n:expr) => {
        #[no_mangle]
        pub fn $name() {
            drive($n, |l| {
                let mut p = 0;
                let a: [Cc<Leaf>; $n] = core::array::from_fn(|_| {
                    let x = take(l, p);
                    p += 1;
                    x
                });
                a
            }, &owned_first($n), no_borrow);
        }
    };
}
array_harness!(h_trace_array0, 0);
array_harness!(h_trace_array1, 1);
array_harness!(h_trace_array2, 2);
array_harness!(h_trace_array3, 3);
array_harness!(h_trace_array32, 32);

/// Vec / boxed slice with symbolic length 0..=4.
#[no_mangle]
pub fn h_trace_vec() {
    let n = any_below(5) as usize;
    drive(n, |l| {
        let mut v = Vec::new();
        for p in 0..n {
            v.push(take(l, p));
        }
        v
    }, &owned_first(n), no_borrow);
}

/// Longer vectors (fast paths that work on chunks must not forget a remainder).
#[no_mangle]
pub fn h_trace_vec_long() {
    let n = match any_below(5) {
        0 => 7usize,
        1 => 8,
        2 => 9,
        3 => 11,
        _ => 14,
    };
    drive(n, |l| {
        let mut v = Vec::new();
        for p in 0..n {
            v.push(take(l, p));
        }
        v
    }, &owned_first(n), no_borrow);
}

/// A traced edge that its owner never drops (ManuallyDrop without a wrapper): the collector still reclaims the whole cycle,
/// including the box of the object whose incoming pointer is never released.
#[no_mangle]
pub fn h_trace_manuallydrop_cycle() {
    let l = leaf(0);
    let h: Cc<Holder<ManuallyDrop<Cc<Leaf>>>> = Cc::new(Holder { c: ManuallyDrop::new(l.clone()) });
    let hd: Box<dyn Trace> = Box::new(h.clone());
    unsafe { *l.back.get() = Some(hd) };
    drop(l);
    drop(h);
    collect_cycles();
    collect_cycles();
    check(ts().holder_drops == 1 && ts().leaf_drops[0] == 1, 121);
    check(state::allocated_bytes().unwrap_or(1) == 0, 122); // C03: every dropped value's allocation is released
    check(heap_live() == 0, 123);
    cover(1);
}

#[no_mangle]
pub fn h_trace_boxed_slice() {
    let n = any_below(4) as usize;
    drive(n, |l| {
        let mut v = Vec::new();
        for p in 0..n {
            v.push(take(l, p));
        }
        v.into_boxed_slice()
    }, &owned_first(n), no_borrow);
}

#[no_mangle]
pub fn h_trace_option() {
    let some = any_below(2) == 1;
    let mut o = [false; ML];
    o[0] = some;
    drive(1, |l| if some { Some(take(l, 0)) } else { None }, &o, no_borrow);
}

#[no_mangle]
pub fn h_trace_result() {
    let ok = any_below(2) == 1;
    let mut o = [false; ML];
    o[0] = ok;
    o[1] = !ok;
    drive(2, |l| -> Result<Cc<Leaf>, Cc<Leaf>> { if ok { Ok(take(l, 0)) } else { Err(take(l, 1)) } }, &o, no_borrow);
}

#[no_mangle]
pub fn h_trace_box() {
    drive(1, |l| Box::new(take(l, 0)), &owned_first(1), no_borrow);
}

#[no_mangle]
pub fn h_trace_manuallydrop() {
    drive(1, |l| DropLater(ManuallyDrop::new(take(l, 0))), &owned_first(1), no_borrow);
}

/// ManuallyDrop does not drop its content; the wrapper does, so that reclamation can be observed.
pub struct DropLater<T>(pub ManuallyDrop<T>);
unsafe impl<T: Trace> Trace for DropLater<T> {
    fn trace(&self, ctx: &mut Context<'_>) {
        self.0.trace(ctx);
    }
}
impl<T: Finalize> Finalize for DropLater<T> {
    fn finalize(&self) {
        self.0.finalize();
    }
}
impl<T> Drop for DropLater<T> {
    fn drop(&mut self) {
        unsafe { ManuallyDrop::drop(&mut self.0) }
    }
}

#[no_mangle]
pub fn h_trace_assertunwindsafe() {
    drive(1, |l| AssertUnwindSafe(take(l, 0)), &owned_first(1), no_borrow);
}

/// RefCell: unborrowed / mutably borrowed / shared-borrowed while the collector traces.
fn refcell_borrow<'a>(mode: u8, c: &'a RefCell<Cc<Leaf>>) -> Option<Box<dyn Guard + 'a>> {
    match mode {
        1 => Some(Box::new(c.borrow_mut())),
        2 => Some(Box::new(c.borrow())),
        _ => None,
    }
}

#[no_mangle]
pub fn h_trace_refcell() {
    let mode = any_below(3);
    drive(1, |l| RefCell::new(take(l, 0)), &owned_first(1), move |c| refcell_borrow(mode, c));
}

// ---- two-level nestings
#[no_mangle]
pub fn h_trace_vec_option() {
    let n = 3usize;
    let mut o = [false; ML];
    let mut some = [false; 3];
    for p in 0..n {
        some[p] = any_below(2) == 1;
        o[p] = some[p];
    }
    drive(n, |l| {
        let mut v: Vec<Option<Cc<Leaf>>> = Vec::new();
        for p in 0..n {
            v.push(if some[p] { Some(take(l, p)) } else { None });
        }
        v
    }, &o, no_borrow);
}

#[no_mangle]
pub fn h_trace_option_box_tuple() {
    let some = any_below(2) == 1;
    let mut o = [false; ML];
    o[0] = some;
    o[1] = some;
    drive(2, |l| if some { Some(Box::new((take(l, 0), take(l, 1)))) } else { None }, &o, no_borrow);
}

fn refcell_vec_borrow<'a>(borrowed: bool, c: &'a RefCell<Vec<Cc<Leaf>>>) -> Option<Box<dyn Guard + 'a>> {
    if borrowed {
        Some(Box::new(c.borrow_mut()))
    } else {
        None
    }
}

#[no_mangle]
pub fn h_trace_refcell_vec() {
    let borrowed = any_below(2) == 1;
    drive(2, |l| RefCell::new(vec![take(l, 0), take(l, 1)]), &owned_first(2), move |c| refcell_vec_borrow(borrowed, c));
}

#[no_mangle]
pub fn h_trace_tuple_vec_option() {
    let some = any_below(2) == 1;
    let mut o = owned_first(2);
    o[2] = some;
    drive(3, |l| (vec![take(l, 0), take(l, 1)], if some { Some(take(l, 2)) } else { None }), &o, no_borrow);
}

#[no_mangle]
pub fn h_trace_array_option() {
    let a = any_below(2) == 1;
    let b = any_below(2) == 1;
    let mut o = [false; ML];
    o[0] = a;
    o[1] = b;
    drive(2, |l| [if a { Some(take(l, 0)) } else { None }, if b { Some(take(l, 1)) } else { None }], &o, no_borrow);
}

#[no_mangle]
pub fn h_trace_vec_manuallydrop() {
    drive(2, |l| VecDropLater(vec![ManuallyDrop::new(take(l, 0)), ManuallyDrop::new(take(l, 1))]), &owned_first(2), no_borrow);
}

pub struct VecDropLater(pub Vec<ManuallyDrop<Cc<Leaf>>>);
unsafe impl Trace for VecDropLater {
    fn trace(&self, ctx: &mut Context<'_>) {
        self.0.trace(ctx);
    }
}
impl Finalize for VecDropLater {}
impl Drop for VecDropLater {
    fn drop(&mut self) {
        for x in self.0.iter_mut() {
            unsafe { ManuallyDrop::drop(x) }
        }
    }
}

#[no_mangle]
pub fn h_trace_result_vec() {
    let ok = any_below(2) == 1;
    let mut o = [false; ML];
    o[0] = ok;
    o[1] = ok;
    o[2] = !ok;
    drive(3, |l| -> Result<Vec<Cc<Leaf>>, Box<Cc<Leaf>>> { if ok { Ok(vec![take(l, 0), take(l, 1)]) } else { Err(Box::new(take(l, 2))) } }, &o, no_borrow);
}

/// Non-owning types report nothing.
#[no_mangle]
pub fn h_trace_nonowning() {
    let o = [false; ML];
    #[cfg(feature = "weak-ptrs")]
    drive(1, |l| {
        let c = take(l, 0);
        let w = c.downgrade();
        (w, PhantomData::<Cc<Leaf>>)
    }, &o, no_borrow);
    #[cfg(not(feature = "weak-ptrs"))]
    drive(1, |l| {
        let _ = take(l, 0);
        (PhantomData::<Cc<Leaf>>, 5u32, 7u8)
    }, &o, no_borrow);
}

/// Finalize forwarding: each contained value's finalizer is called exactly once per finalize of the container.
#[no_mangle]
pub fn h_finalize_forwarding() {
    let some = any_below(2) == 1;
    let ok = any_below(2) == 1;
    let borrowed = any_below(2) == 1;
    let t = (FinProbe(0), FinProbe(1), FinProbe(2));
    t.finalize();
    let a = [FinProbe(3), FinProbe(4)];
    a.finalize();
    let v = vec![FinProbe(5), FinProbe(6), FinProbe(7)];
    v.finalize();
    v.as_slice().finalize();
    let o = if some { Some(FinProbe(8)) } else { None };
    o.finalize();
    let r: Result<FinProbe, FinProbe> = if ok { Ok(FinProbe(9)) } else { Err(FinProbe(10)) };
    r.finalize();
    let b = Box::new(FinProbe(11));
    b.finalize();
    let rc = RefCell::new(FinProbe(12));
    {
        let g = if borrowed { Some(rc.borrow_mut()) } else { None };
        rc.finalize();
        drop(g);
    }
    let m = ManuallyDrop::new(FinProbe(13));
    m.finalize();
    let u = AssertUnwindSafe(FinProbe(14));
    u.finalize();
    let nest = vec![Some(Box::new((FinProbe(15), FinProbe(16))))];
    nest.finalize();
    let big = (FinProbe(17), FinProbe(18), FinProbe(19), FinProbe(20), FinProbe(21), FinProbe(22), FinProbe(23), FinProbe(24), FinProbe(25), FinProbe(26), FinProbe(27), FinProbe(28));
    big.finalize();
    let f = &ts().fin_calls;
    for p in 0..5 {
        check(f[p] == 1, 201);
    }
    for p in 5..8 {
        check(f[p] == 2, 202); // Vec and slice each forwarded once
    }
    check(f[8] == some as u8, 203);
    check(f[9] == ok as u8 && f[10] == !ok as u8, 204);
    check(f[11] == 1, 205);
    check(f[12] == !borrowed as u8, 206);
    check(f[13] == 1 && f[14] == 1, 207);
    check(f[15] == 1 && f[16] == 1, 208);
    for p in 17..29 {
        check(f[p] == 1, 209);
    }
    cover(1);
}

#[no_mangle]
pub fn h_trace_twin() {
    drive(1, |l| Box::new(take(l, 0)), &owned_first(1), no_borrow);
    check(false, 9999);
}
