//! Family W: weak pointers. Program-held Weaks with symbolic life cycles (W1) and upgrades attempted from inside
//! finalizers and destructors of the same garbage set (W2). Serves C08 C09 (and C01/C03 through the shared oracles).
#![cfg(feature = "weak-ptrs")]

use rust_cc::weak::Weak;
use rust_cc::*;

use crate::node::*;
use crate::sym::*;

fn build(n: usize, slots: usize) {
    for i in 0..n {
        new_node(i);
    }
    for i in 0..n {
        for s in 0..slots {
            let t = any_below(n as u8 + 1) as usize;
            if t < n {
                set_slot(i, s, t);
            }
        }
    }
}

/// Number of Weak pointers to node `i` that exist according to the model.
pub fn model_weak(i: usize) -> u32 {
    let w = w();
    let mut c = w.w[i].is_some() as u32 + w.w2[i].is_some() as u32 + w.wphantom[i] as u32;
    for j in 0..w.n {
        if w.created[j] && w.drops[j] == 0 && !w.unwrapped[j] && w.wedge[j] == i as u8 {
            c += 1;
        }
    }
    c
}

fn alive(i: usize) -> bool {
    let w = w();
    w.created[i] && w.drops[i] == 0 && !w.unwrapped[i]
}

/// C09: every counting query agrees with the model; C08: top-level upgrades succeed exactly while the value is alive.
pub fn oracle_weak(base: u32) {
    let w = w();
    for i in 0..w.n {
        if !w.created[i] {
            continue;
        }
        let mw = model_weak(i);
        let live = alive(i) && model_count(i) > 0;
        if live {
            if let Some(c) = any_cc(i) {
                check(c.weak_count() == mw, base + 61); // C09: Cc::weak_count exact
            }
        }
        for k in 0..2 {
            let wk = if k == 0 { &w.w[i] } else { &w.w2[i] };
            if let Some(wk) = wk {
                check(wk.weak_count() == mw, base + 62); // C09: Weak::weak_count exact, also after the value is gone
                let sc = wk.strong_count();
                if live {
                    if w.tainted {
                        check(sc >= model_count(i), base + 63);
                    } else {
                        check(sc == model_count(i), base + 63); // C09: Weak::strong_count exact while alive
                    }
                } else {
                    check(sc == 0, base + 64); // C09: 0 afterwards
                }
                // C08: upgrade succeeds exactly while the value is alive, and yields the original allocation
                match wk.upgrade() {
                    Some(c) => {
                        check(live, base + 65);
                        check((&*c) as *const Node as usize == w.addr[i], base + 66);
                        check(c.canary == CANARY + i as u32 && c.id == i, base + 67);
                        if let Some(orig) = any_cc(i) {
                            check(Cc::ptr_eq(&c, orig), base + 66);
                        }
                        // keep the buffering state as it was: upgrade un-buffers, dropping the extra pointer re-buffers
                        drop(c);
                    }
                    None => {
                        check(!live, base + 68);
                    }
                }
            }
        }
    }
}

fn drop_weak(i: usize, k: usize) {
    let w = w();
    let x = if k == 0 { w.w[i].take() } else { w.w2[i].take() };
    drop(x);
}

/// W1: life cycles of program-held Weaks interleaved with release by reference counting and by the collector.
fn weak_program(n: usize, phantom: bool) {
    build(n, 1);
    check(Weak::<Node>::new().upgrade().is_none(), 71); // C08: Weak::new() never upgrades
    check(Weak::<Node>::new().strong_count() == 0 && Weak::<Node>::new().weak_count() == 0, 72);
    for i in 0..n {
        let c = any_below(3);
        if c >= 1 {
            if let Some(h) = handle(i) {
                w().w[i] = Some(h.downgrade());
            }
        }
        if c == 2 {
            let x = w().w[i].as_ref().map(|x| x.clone());
            w().w2[i] = x;
        }
        if phantom && c >= 1 {
            let m = any_u16();
            assume(m <= 32000);
            if let Some(h) = handle(i) {
                if rust_cc::verif::add_phantom_weak(h, m) {
                    w().wphantom[i] = m;
                }
            }
        }
    }
    oracle_weak(100);
    oracle_safety(100);
    for i in 0..n {
        if any_below(2) == 1 {
            drop_h(i);
            oracle_safety(200);
            oracle_rc(200);
            oracle_weak(200);
        }
    }
    collect_quiescent(3, 300);
    oracle_safety(300);
    oracle_rc(300);
    oracle_complete(300);
    oracle_weak(300);
    cover(1);
    // later: release weaks, re-downgrade after the weak count returned to zero
    for i in 0..n {
        match any_below(3) {
            1 => {
                if phantom {
                    if let Some(h) = any_cc(i) {
                        if alive(i) && rust_cc::verif::sub_phantom_weak(h, w().wphantom[i]) {
                            w().wphantom[i] = 0;
                        }
                    }
                }
                drop_weak(i, 0);
                drop_weak(i, 1);
                oracle_weak(400);
                if w().wphantom[i] == 0 {
                    if let Some(h) = handle(i) {
                        // re-downgrade after the weak count returned to zero
                        w().w[i] = Some(h.downgrade());
                        oracle_weak(410);
                    }
                }
            }
            2 => {
                drop_weak(i, 1);
            }
            _ => {}
        }
    }
    oracle_weak(500);
    for i in 0..n {
        drop_h(i);
        oracle_weak(600);
    }
    collect_quiescent(3, 700);
    oracle_safety(700);
    oracle_complete(700);
    oracle_weak(700);
    cover(2);
}

/// W2: upgrades from inside finalizers and destructors of the same garbage set.
fn weak_callbacks(n: usize, sym_shape: bool) {
    if sym_shape {
        build(n, 1);
    } else {
        // ring
        for i in 0..n {
            new_node(i);
        }
        for i in 0..n {
            set_slot(i, 0, (i + 1) % n);
        }
    }
    for i in 0..n {
        // weak slot: none / self / next / previous
        let c = any_below(4);
        if c != 0 {
            let t = match c {
                1 => i,
                2 => (i + 1) % n,
                _ => (i + n - 1) % n,
            };
            if let (Some(owner), Some(target)) = (handle(i), handle(t)) {
                *owner.wslot() = Some(target.downgrade());
                w().wedge[i] = t as u8;
            }
        }
        // program-held weak to every node, so that the top-level oracle watches all of them
        if let Some(h) = handle(i) {
            w().w[i] = Some(h.downgrade());
        }
    }
    for i in 0..n {
        w().fin_act[i] = match any_below(3) {
            1 => F_UPGRADE_STASH,
            2 => F_UPGRADE_SLOT1,
            _ => F_NONE,
        };
        w().drop_act[i] = match any_below(3) {
            1 => D_UPGRADE,
            2 => D_TEMP,
            _ => D_NONE,
        };
    }
    oracle_weak(100);
    for i in 0..n {
        if any_below(2) == 1 {
            drop_h(i);
            oracle_safety(200);
            oracle_rc(200);
            oracle_weak(200);
        }
    }
    collect_quiescent(4, 300);
    oracle_safety(300);
    oracle_rc(300);
    oracle_complete(300);
    oracle_weak(300);
    cover(1);
    for i in 0..MAXN {
        if w().stash[i].is_some() && any_below(2) == 1 {
            drop_stash(i);
            oracle_safety(400);
            oracle_weak(400);
        }
    }
    collect_quiescent(4, 500);
    oracle_safety(500);
    oracle_rc(500);
    oracle_complete(500);
    oracle_weak(500);
    cover(2);
}

/// W3: a helper object owned through an UNTRACED field of a cycle member. The collector does not know it: it is released by a
/// plain (nested) Cc::drop while the collector destroys the cycle, and its finalizer / destructor upgrades a Weak to a cycle member.
fn weak_helper() {
    for i in 0..3 {
        new_node(i);
    }
    // 0 <-> 1 (optionally only one direction: then it is a chain released by reference counting)
    set_slot(0, 0, 1);
    if any_below(2) == 1 {
        set_slot(1, 0, 0);
    }
    let owner = any_below(2) as usize;
    set_untraced(owner, 2);
    let target = any_below(2) as usize;
    // a self edge keeps the target's count above zero after its neighbour's traced pointers are gone: the helper (released
    // after the owner's traced slots) then meets a condemned object whose count is still positive
    if any_below(2) == 1 {
        set_slot(target, 1, target);
    }
    if let (Some(h), Some(t)) = (handle(2), handle(target)) {
        *h.wslot() = Some(t.downgrade());
        w().wedge[2] = target as u8;
    }
    for i in 0..2 {
        if let Some(h) = handle(i) {
            w().w[i] = Some(h.downgrade());
        }
    }
    w().fin_act[2] = if any_below(2) == 1 { F_UPGRADE_STASH } else { F_NONE };
    w().drop_act[2] = if any_below(2) == 1 { D_UPGRADE } else { D_NONE };
    w().drop_act[0] = if any_below(2) == 1 { D_TEMP } else { D_NONE };
    // already finalized helper or not: finalize_again is not needed, just let a first collection process it while it is alive
    for i in 0..3 {
        if any_below(2) == 1 {
            clone_h(i);
            drop_h2(i);
        }
    }
    oracle_weak(100);
    drop_h(2); // the helper is now owned only through the untraced field
    oracle_safety(150);
    for i in 0..2 {
        if any_below(2) == 1 {
            drop_h(i);
            oracle_safety(200);
            oracle_rc(200);
            oracle_weak(200);
        }
    }
    collect_quiescent(4, 300);
    oracle_safety(300);
    oracle_rc(300);
    oracle_weak(300);
    cover(1);
    for i in 0..MAXN {
        if w().stash[i].is_some() && any_below(2) == 1 {
            drop_stash(i);
            oracle_safety(400);
            oracle_weak(400);
        }
    }
    for i in 0..2 {
        drop_h(i);
    }
    collect_quiescent(4, 500);
    oracle_safety(500);
    oracle_rc(500);
    oracle_weak(500);
    cover(2);
}

#[no_mangle]
pub fn h_weak_helper() {
    weak_helper();
}

#[no_mangle]
pub fn h_weak_prog_n2() {
    weak_program(2, true);
}

#[no_mangle]
pub fn h_weak_prog_n1() {
    weak_program(1, true);
}

#[no_mangle]
pub fn h_weak_cb_n2() {
    weak_callbacks(2, true);
}

#[no_mangle]
pub fn h_weak_cb_ring3() {
    weak_callbacks(3, false);
}

#[no_mangle]
pub fn h_weak_twin() {
    weak_program(1, false);
    check(false, 9999);
}
