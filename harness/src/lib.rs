//! Verification harnesses for rust-cc (see /verif/DESIGN.md).
//! Every `#[no_mangle] pub fn h_*` is an entry point executed symbolically by /verif/llsym over the LLVM IR of
//! this crate and of rust-cc itself; with `--features native` the same code is the replay target.
#![allow(clippy::all, dead_code, unused_imports, unused_variables)]

#[cfg(feature = "native")]
pub mod native;
pub mod sym;
pub mod node;
pub mod h_graph;
pub mod h_panic;
pub mod h_fin;
pub mod h_api;
pub mod h_count;
pub mod h_trace;
pub mod h_layout;
pub mod h_tls;
pub mod h_fmt;
pub mod h_prog;
#[cfg(feature = "cleaners")]
pub mod h_clean;
#[cfg(feature = "auto-collect")]
pub mod h_policy;
#[cfg(feature = "weak-ptrs")]
pub mod h_cyclic;
#[cfg(feature = "weak-ptrs")]
pub mod h_weak;

#[cfg(feature = "native")]
pub mod registry;
