//! Native back end of the harness vocabulary: concrete inputs, instrumented allocator.
//! Used only to replay a solver counterexample against the real compiled code.

use std::alloc::{GlobalAlloc, Layout, System};
use std::sync::atomic::{AtomicBool, AtomicUsize, Ordering};

pub static mut INPUTS: Vec<u64> = Vec::new();
pub static mut CURSOR: usize = 0;
pub static mut UNDERRUN: bool = false;
pub static mut TRACE_EVENTS: bool = false;

pub const EXIT_ASSERT: i32 = 101;
pub const EXIT_ALLOC: i32 = 102;
pub const EXIT_ASSUME: i32 = 103;

fn next() -> u64 {
    unsafe {
        if CURSOR < INPUTS.len() {
            let v = INPUTS[CURSOR];
            CURSOR += 1;
            v
        } else {
            UNDERRUN = true;
            0
        }
    }
}

pub unsafe fn verif_any_bool() -> bool { next() & 1 != 0 }
pub unsafe fn verif_any_u8() -> u8 { next() as u8 }
pub unsafe fn verif_any_u16() -> u16 { next() as u16 }
pub unsafe fn verif_any_u32() -> u32 { next() as u32 }
pub unsafe fn verif_any_u64() -> u64 { next() }

pub unsafe fn verif_choice(n: u8) -> u8 {
    let v = next() as u8;
    verif_assume(v < n);
    v
}

pub unsafe fn verif_assume(c: bool) {
    if !c {
        println!("NATIVE assume-violated");
        std::process::exit(EXIT_ASSUME);
    }
}

pub unsafe fn verif_assert(c: bool, id: u32) {
    if !c {
        println!("NATIVE assert-failed id={}", id);
        std::process::exit(EXIT_ASSERT);
    }
}

pub unsafe fn verif_cover(_id: u32) {}

pub unsafe fn verif_event(kind: u32, a: u64, b: u64) {
    if TRACE_EVENTS {
        println!("EVENT {} {} {}", kind, a, b);
    }
}

pub unsafe fn verif_heap_live() -> u64 { live_tracked().0 as u64 }
pub unsafe fn verif_heap_bytes() -> u64 { live_tracked().1 as u64 }

pub struct Injected;

pub unsafe fn verif_panic() {
    std::panic::resume_unwind(Box::new(Injected));
}

// ---------------------------------------------------------------------------------------------
// Instrumented allocator: never reuses memory while tracking is on, poisons freed blocks, checks
// that every free matches a live allocation with the same layout.

const SLOTS: usize = 1 << 14;
static TRACKING: AtomicBool = AtomicBool::new(false);
static NEXT: AtomicUsize = AtomicUsize::new(0);
static BASE: AtomicUsize = AtomicUsize::new(0);
static mut TABLE: [(usize, usize, usize, u8); SLOTS] = [(0, 0, 0, 0); SLOTS]; // (ptr, size, align, state 1=live 2=freed)

pub struct Tracking;

/// Allocations made before this call (thread start-up) are not counted by `live_tracked`.
pub fn set_baseline() {
    BASE.store(NEXT.load(Ordering::SeqCst), Ordering::SeqCst);
}

pub fn set_tracking(on: bool) {
    TRACKING.store(on, Ordering::SeqCst);
}

fn alloc_error(msg: &str, ptr: usize, size: usize, align: usize) -> ! {
    TRACKING.store(false, Ordering::SeqCst);
    println!("NATIVE alloc-error {} ptr={:#x} size={} align={}", msg, ptr, size, align);
    std::process::exit(EXIT_ALLOC);
}

unsafe impl GlobalAlloc for Tracking {
    unsafe fn alloc(&self, layout: Layout) -> *mut u8 {
        let p = System.alloc(layout);
        if TRACKING.load(Ordering::Relaxed) && !p.is_null() {
            let i = NEXT.fetch_add(1, Ordering::Relaxed);
            if i >= SLOTS {
                alloc_error("table-full", p as usize, layout.size(), layout.align());
            }
            TABLE[i] = (p as usize, layout.size(), layout.align(), 1);
        }
        p
    }

    unsafe fn dealloc(&self, ptr: *mut u8, layout: Layout) {
        if TRACKING.load(Ordering::Relaxed) {
            let n = NEXT.load(Ordering::Relaxed).min(SLOTS);
            let mut found = false;
            let mut i = n;
            while i > 0 {
                i -= 1;
                if TABLE[i].0 == ptr as usize {
                    found = true;
                    if TABLE[i].3 == 2 {
                        alloc_error("double-free", ptr as usize, layout.size(), layout.align());
                    }
                    if TABLE[i].1 != layout.size() || TABLE[i].2 != layout.align() {
                        alloc_error("bad-layout", ptr as usize, layout.size(), layout.align());
                    }
                    TABLE[i].3 = 2;
                    break;
                }
            }
            if !found {
                // Allocated before tracking was switched on (runtime start-up): really free it.
                System.dealloc(ptr, layout);
                return;
            }
            // Poison and leak: later reads through dangling pointers see 0xDD, the block is never reused.
            std::ptr::write_bytes(ptr, 0xDD, layout.size());
        } else {
            System.dealloc(ptr, layout);
        }
    }
}

/// Number of tracked allocations that are still live, and their total size.
pub fn live_tracked() -> (usize, usize) {
    let n = NEXT.load(Ordering::Relaxed).min(SLOTS);
    let mut cnt = 0;
    let mut bytes = 0;
    for i in BASE.load(Ordering::Relaxed)..n {
        let e = unsafe { TABLE[i] };
        if e.3 == 1 {
            cnt += 1;
            bytes += e.1;
        }
    }
    (cnt, bytes)
}
