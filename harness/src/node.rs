//! The instrumented payload type, the program-held pointers, the shadow model and the oracles.
//!
//! Everything is single-threaded and lives in one `static mut` world so that user callbacks
//! (`Trace`, `Finalize`, `Drop`) can reach it without allocating.

use std::cell::UnsafeCell;

use rust_cc::*;
#[cfg(feature = "weak-ptrs")]
use rust_cc::weak::Weak;

use crate::sym::*;

pub const MAXN: usize = 4;
pub const NONE: u8 = 255;
pub const CANARY: u32 = 0xC0FF_EE00;

// Callback kinds for the fault plan.
pub const K_TRACE: u8 = 1;
pub const K_FINALIZE: u8 = 2;
pub const K_DROP: u8 = 3;
pub const K_ACTION: u8 = 4;
pub const K_CLOSURE: u8 = 5;

// Finalizer behaviours.
pub const F_NONE: u8 = 0;
pub const F_CLEAR0: u8 = 1; // drop the field in traced slot 0
pub const F_STASH_SELF: u8 = 2; // resurrect self: clone a Cc to self found in the graph into a program-held place
pub const F_STASH_NEIGH: u8 = 3; // resurrect the target of slot 0
pub const F_ALLOC_NODE: u8 = 4; // create a new object inside the finalizer and keep it
pub const F_COLLECT: u8 = 5; // request a collection from inside the finalizer
pub const F_UNSTASH: u8 = 6; // release one program-held pointer (finalizers that keep releasing objects)
pub const F_UPGRADE_STASH: u8 = 7; // upgrade the weak slot into a program-held place (weak-ptrs)
pub const F_UPGRADE_SLOT1: u8 = 8; // upgrade the weak slot into the object's own traced slot 1 (weak-ptrs)
pub const F_PROBE: u8 = 9; // try_unwrap / finalize_again on a unique program-held Cc from inside the finalizer (C12)
pub const F_UNSTASH_ALLOC: u8 = 10; // release a program-held pointer (it gets buffered), then allocate (C12/C15)
pub const F_NBEHAV: u8 = 7;
pub const F_NBEHAV_WEAK: u8 = 9;

// Destructor behaviours.
pub const D_NONE: u8 = 0;
pub const D_TEMP: u8 = 1; // create and release a temporary Cc inside the destructor (nested plain drop)
pub const D_COLLECT: u8 = 2; // request a collection from inside the destructor
pub const D_UPGRADE: u8 = 3; // upgrade the weak slot inside the destructor and keep the result (weak-ptrs)
pub const D_PROBE: u8 = 4; // try_unwrap / finalize_again on a unique program-held Cc from inside the destructor (C12)
pub const D_ALLOC_NODE: u8 = 5; // create an object with a real finalizer inside the destructor and keep it (C04/C05)
pub const D_NBEHAV: u8 = 3;
pub const D_NBEHAV_WEAK: u8 = 4;

pub struct Node {
    pub id: usize,
    pub canary: u32,
    pub slots: UnsafeCell<[Option<Cc<Node>>; 2]>,
    /// Owning field that `Trace` deliberately does NOT report (dropped after the traced slots).
    pub untraced: UnsafeCell<Option<Cc<Node>>>,
    #[cfg(feature = "weak-ptrs")]
    pub wslot: UnsafeCell<Option<Weak<Node>>>,
    #[cfg(feature = "cleaners")]
    pub cleaner: rust_cc::cleaners::Cleaner,
    /// Dropped right after the cleaner: by then every action registered on it must have run.
    #[cfg(feature = "cleaners")]
    pub after: AfterCleaner,
}

#[cfg(feature = "cleaners")]
pub struct AfterCleaner {
    pub id: usize,
}
#[cfg(feature = "cleaners")]
impl Drop for AfterCleaner {
    fn drop(&mut self) {
        crate::h_clean::after_cleaner_dropped(self.id);
    }
}

pub struct World {
    // ---- observation
    pub created: [bool; MAXN],
    pub drops: [u8; MAXN],
    pub fins: [u8; MAXN],
    pub traces: u32,
    /// Number of callbacks in which the sampled collector phase was not the documented one.
    pub bad_phase: u32,
    /// A finalizer ran on an object that the model says the program can still reach.
    pub fin_on_live: u32,
    /// A finalizer or destructor observed an already dropped neighbour.
    pub saw_dropped: u32,
    /// A finalizer ran after the drop of the same object.
    pub fin_after_drop: u32,
    /// A destructor ran on an object that was still due for finalization.
    pub drop_unfinalized: u32,
    /// `armed[i]`: object `i` is due for finalization (initially, and again after `finalize_again`).
    pub armed: [bool; MAXN],
    pub rearm: [u8; MAXN],
    /// created inside a finalizer: must report already_finalized() and never be finalized automatically
    pub born_in_fin: [bool; MAXN],
    /// a nested collect_cycles() from a callback of a running collection changed executions_count()
    pub nested_collect: u32,
    /// collect_cycles() called outside any collection (from a callback of a plain drop) did not start a collection
    pub collect_missing: u32,
    pub bad_ptr_eq: u32,
    pub in_callback: u32,
    /// set by the harness around top-level collect_cycles() calls
    pub in_collect: bool,
    // ---- fault plan: the `fault_at`-th invocation (1-based) of callback kind `fault_kind` panics
    pub fault_kind: u8,
    pub fault_at: u32,
    pub count: [u32; 6],
    pub fault_fired: u32,
    /// Set once a panic was caught: leaks and skipped callbacks are permitted from then on.
    pub tainted: bool,
    /// objects that were unreachable when a panic was caught: they may have been involved in the unwound call (their count may be too high)
    pub rc_tainted: [bool; MAXN],
    /// the finalize fault fires after the finalizer's action instead of before it
    pub fault_late: bool,
    // ---- behaviours
    pub fin_act: [u8; MAXN],
    pub drop_act: [u8; MAXN],
    /// result of an upgrade that contradicts the model (C08)
    pub bad_upgrade: u32,
    pub unwrapped: [bool; MAXN],
    /// an allocation inside a callback did not follow the documented trigger policy (C15 / C12)
    pub bad_trigger: u32,
    /// C11: predict the exact set of buffered objects (finalizer-free programs only)
    pub predict: bool,
    pub buffered: [bool; MAXN],
    // ---- program-held pointers
    pub h: [Option<Cc<Node>>; MAXN],
    pub h2: [Option<Cc<Node>>; MAXN],
    pub stash: [Option<Cc<Node>>; MAXN],
    #[cfg(feature = "weak-ptrs")]
    pub w: [Option<Weak<Node>>; MAXN],
    #[cfg(feature = "weak-ptrs")]
    pub w2: [Option<Weak<Node>>; MAXN],
    /// model: target of the weak slot of node i
    pub wedge: [u8; MAXN],
    /// model: phantom weak references
    pub wphantom: [u16; MAXN],
    // ---- shadow model
    pub edge: [[u8; 2]; MAXN],
    pub uedge: [u8; MAXN],
    pub phantom: [u16; MAXN],
    pub boxsz: [u64; MAXN],
    pub boxsz0: u64,
    /// bytes of managed allocations the harness holds besides the nodes (probes)
    pub extra_bytes: u64,
    /// `i` was unreachable from program-held pointers at some observation point since it was (re-)armed
    pub ever_unreachable: [bool; MAXN],
    pub addr: [usize; MAXN],
    /// address of the managed allocation (as reported by the snapshot hook)
    pub baddr: [usize; MAXN],
    pub n: usize,
}

const NO_CC: Option<Cc<Node>> = None;
#[cfg(feature = "weak-ptrs")]
const NO_WEAK: Option<Weak<Node>> = None;

pub static mut W: World = World {
    created: [false; MAXN],
    drops: [0; MAXN],
    fins: [0; MAXN],
    traces: 0,
    bad_phase: 0,
    fin_on_live: 0,
    saw_dropped: 0,
    fin_after_drop: 0,
    drop_unfinalized: 0,
    armed: [true; MAXN],
    rearm: [0; MAXN],
    born_in_fin: [false; MAXN],
    nested_collect: 0,
    collect_missing: 0,
    bad_ptr_eq: 0,
    in_callback: 0,
    in_collect: false,
    fault_kind: 0,
    fault_at: 0,
    count: [0; 6],
    fault_fired: 0,
    tainted: false,
    rc_tainted: [false; MAXN],
    fault_late: false,
    fin_act: [0; MAXN],
    drop_act: [0; MAXN],
    bad_upgrade: 0,
    unwrapped: [false; MAXN],
    bad_trigger: 0,
    predict: false,
    buffered: [false; MAXN],
    h: [NO_CC; MAXN],
    h2: [NO_CC; MAXN],
    stash: [NO_CC; MAXN],
    #[cfg(feature = "weak-ptrs")]
    w: [NO_WEAK; MAXN],
    #[cfg(feature = "weak-ptrs")]
    w2: [NO_WEAK; MAXN],
    wedge: [NONE; MAXN],
    wphantom: [0; MAXN],
    edge: [[NONE; 2]; MAXN],
    uedge: [NONE; MAXN],
    phantom: [0; MAXN],
    boxsz: [0; MAXN],
    boxsz0: 0,
    extra_bytes: 0,
    ever_unreachable: [false; MAXN],
    addr: [0; MAXN],
    baddr: [0; MAXN],
    n: 0,
};

#[inline(always)]
pub fn w() -> &'static mut World {
    unsafe { &mut *core::ptr::addr_of_mut!(W) }
}

/// Fault plan: panics if this is the planned invocation of callback kind `kind`.
#[inline(always)]
pub fn maybe_fault(kind: u8) {
    let w = w();
    w.count[kind as usize] += 1;
    if w.fault_kind == kind && w.count[kind as usize] == w.fault_at {
        w.fault_fired += 1;
        inject_panic();
    }
}

#[inline(always)]
fn tracing_now() -> bool {
    state::is_tracing().unwrap_or(false)
}

impl Node {
    #[inline(always)]
    pub fn slots(&self) -> &mut [Option<Cc<Node>>; 2] {
        unsafe { &mut *self.slots.get() }
    }
    #[inline(always)]
    pub fn untraced(&self) -> &mut Option<Cc<Node>> {
        unsafe { &mut *self.untraced.get() }
    }
    #[cfg(feature = "weak-ptrs")]
    #[inline(always)]
    pub fn wslot(&self) -> &mut Option<Weak<Node>> {
        unsafe { &mut *self.wslot.get() }
    }
}

unsafe impl Trace for Node {
    fn trace(&self, ctx: &mut Context<'_>) {
        let w = w();
        w.traces += 1;
        event(K_TRACE as u32, self.id as u64, 0);
        if !tracing_now() {
            w.bad_phase += 1;
        }
        maybe_fault(K_TRACE);
        // comparing pointers (not dereferencing them) is allowed while tracing
        if let Some(x) = &self.slots()[0] {
            if !Cc::ptr_eq(x, x) {
                w.bad_ptr_eq += 1;
            }
        }
        self.slots().trace(ctx);
        // `untraced` is deliberately not traced; weak pointers trace nothing
        #[cfg(feature = "weak-ptrs")]
        self.wslot().trace(ctx);
        // what derive(Trace) does: every field is handed to the collector, the cleaner included (it reports nothing)
        #[cfg(feature = "cleaners")]
        self.cleaner.trace(ctx);
    }
}

impl Finalize for Node {
    fn finalize(&self) {
        let w = w();
        let id = self.id;
        if tracing_now() {
            w.bad_phase += 1;
        }
        if w.drops[id] != 0 {
            w.fin_after_drop += 1;
        }
        w.fins[id] = w.fins[id].wrapping_add(1);
        event(K_FINALIZE as u32, id as u64, 0);
        w.armed[id] = false;
        note_unreachable();
        if !w.ever_unreachable[id] {
            w.fin_on_live += 1; // it never became unreachable, yet it is finalized
        }
        // Everything reachable from a finalized object must still be undropped and intact.
        let r = reach_from(id);
        for t in 0..w.n {
            if r[t] && w.drops[t] != 0 {
                w.saw_dropped += 1;
            }
        }
        for s in 0..2 {
            if let Some(c) = &self.slots()[s] {
                let t = w.edge[id][s];
                if t != NONE && c.canary != CANARY + t as u32 {
                    w.saw_dropped += 1;
                }
            }
        }
        if !w.fault_late {
            maybe_fault(K_FINALIZE);
        }
        finalize_action(self, id);
        if w.fault_late {
            maybe_fault(K_FINALIZE);
        }
    }
}

fn finalize_action(this: &Node, id: usize) {
    let w = w();
    {
        match w.fin_act[id] {
            F_CLEAR0 => {
                clear_slot(id, 0);
            }
            F_STASH_SELF => {
                if let Some(me) = find_cc_to(id) {
                    stash_put(id, me);
                }
            }
            F_STASH_NEIGH => {
                let t = w.edge[id][0];
                if t != NONE {
                    if let Some(c) = &this.slots()[0] {
                        let c = c.clone();
                        stash_put(t as usize, c);
                    }
                }
            }
            F_ALLOC_NODE => {
                let j = w.n;
                if j < MAXN {
                    let e0 = state::executions_count().unwrap_or(0);
                    let expect = expected_trigger();
                    new_node(j);
                    if state::executions_count().unwrap_or(0) - e0 != expect as usize {
                        w.bad_trigger += 1;
                    }
                    w.born_in_fin[j] = true;
                    w.armed[j] = false;
                    if let Some(c) = w.h[j].take() {
                        check(c.already_finalized_compat(), 9001); // C05: born finalized
                        stash_put(j, c);
                    }
                }
            }
            F_COLLECT => {
                nested_collect_request();
            }
            F_UNSTASH_ALLOC => {
                // buffer some live objects (one of two pointers dropped), release one program-held pointer, then allocate
                for i in 0..MAXN {
                    if let Some(c) = &w.stash[i] {
                        let extra = c.clone();
                        predict_alive(i);
                        drop(extra);
                    }
                }
                crate::h_api::buffer_probe();
                for i in 0..MAXN {
                    if w.stash[i].is_some() {
                        let c = w.stash[i].take();
                        note_unreachable();
                        drop(c);
                        break;
                    }
                }
                let e0 = state::executions_count().unwrap_or(0);
                let expect = expected_trigger();
                let c = Cc::new(11u16);
                if state::executions_count().unwrap_or(0) - e0 != expect as usize {
                    w.bad_trigger += 1;
                }
                drop(c);
            }
            F_PROBE => {
                crate::h_api::nested_probe();
            }
            F_UNSTASH => {
                for i in 0..MAXN {
                    if w.stash[i].is_some() {
                        let c = w.stash[i].take();
                        note_unreachable();
                        drop(c);
                        break;
                    }
                }
            }
            #[cfg(feature = "weak-ptrs")]
            F_UPGRADE_STASH => {
                if let Some(wk) = this.wslot() {
                    let wt = w.wedge[id];
                    // this finalizer may be nested in the collector's drop phase (plain drop of an object the collector does not
                    // know): members of the garbage set being destroyed are condemned and must not upgrade
                    let (collecting, _, dropping) = rust_cc::verif::phase_flags();
                    let condemned = collecting && dropping && wt != NONE && !reach_set()[wt as usize];
                    match wk.upgrade() {
                        Some(c) => {
                            if condemned {
                                w.bad_upgrade += 1;
                            }
                            let t = c.id;
                            // C08: never a dropped value, always the original allocation
                            if w.drops[t] != 0 || c.canary != CANARY + t as u32 || t as u8 != wt || (&**(&c)) as *const Node as usize != w.addr[t] {
                                w.bad_upgrade += 1;
                            }
                            stash_put(t, c);
                        }
                        None => {
                            // finalizers run before any destruction of the set begins: the target must be gone already
                            if !condemned && wt != NONE && w.drops[wt as usize] == 0 && !w.unwrapped[wt as usize] && model_count(wt as usize) > 0 {
                                w.bad_upgrade += 1;
                            }
                        }
                    }
                }
            }
            #[cfg(feature = "weak-ptrs")]
            F_UPGRADE_SLOT1 => {
                if let Some(wk) = this.wslot() {
                    if let Some(c) = wk.upgrade() {
                        let t = c.id;
                        if w.drops[t] != 0 || c.canary != CANARY + t as u32 {
                            w.bad_upgrade += 1;
                        }
                        let old = core::mem::replace(&mut this.slots()[1], Some(c));
                        w.edge[id][1] = t as u8;
                        note_unreachable();
                        drop(old);
                    }
                }
            }
            _ => {}
        }
    }
}

impl Drop for Node {
    fn drop(&mut self) {
        let w = w();
        let id = self.id;
        if tracing_now() {
            w.bad_phase += 1;
        }
        // what the weak slot's target looks like while `self` still owns its fields
        let wt = w.wedge[id];
        let wt_count_before = if wt != NONE { model_count(wt as usize) } else { 0 };
        w.drops[id] = w.drops[id].wrapping_add(1);
        event(K_DROP as u32, id as u64, 0);
        if self.canary != CANARY + id as u32 {
            w.saw_dropped += 1;
        }
        if cfg!(feature = "finalization") && w.created[id] && w.armed[id] && !w.tainted {
            w.drop_unfinalized += 1;
        }
        self.canary = 0xDEAD_0000 + id as u32;
        // The drop glue releases the fields right after this returns: mirror it in the model.
        let targets = [w.edge[id][0], w.edge[id][1], w.uedge[id]];
        w.edge[id] = [NONE; 2];
        w.uedge[id] = NONE;
        w.wedge[id] = NONE;
        w.buffered[id] = false;
        for t in targets {
            if t != NONE && t as usize != id {
                predict_drop(t as usize);
            }
        }
        note_unreachable();
        maybe_fault(K_DROP);
        match w.drop_act[id] {
            D_TEMP => {
                let e0 = state::executions_count().unwrap_or(0);
                let expect = expected_trigger();
                let c = Cc::new(9u32);
                if state::executions_count().unwrap_or(0) - e0 != expect as usize {
                    w.bad_trigger += 1;
                }
                drop(c);
            }
            D_PROBE => {
                crate::h_api::nested_probe();
            }
            D_COLLECT => {
                nested_collect_request();
            }
            D_ALLOC_NODE => {
                let j = w.n;
                if j < MAXN {
                    // born finalized exactly when some finalizer is on the stack (this destructor may be nested in one)
                    let (_, in_finalizer, _) = rust_cc::verif::phase_flags();
                    new_node(j);
                    if let Some(c) = w.h[j].take() {
                        if cfg!(feature = "finalization") && c.already_finalized_compat() != in_finalizer {
                            w.drop_unfinalized += 1;
                        }
                        if in_finalizer {
                            w.born_in_fin[j] = true;
                            w.armed[j] = false;
                        }
                        stash_put(j, c);
                    }
                }
            }
            #[cfg(feature = "weak-ptrs")]
            D_UPGRADE => {
                if let Some(wk) = self.wslot() {
                    let t = wt as usize;
                    let up = wk.upgrade();
                    // C08: None for `self` (its destruction has begun), for dropped values and for members of the garbage
                    // set the collector is destroying; Some whenever a Cc to the target exists and its destruction has
                    // not begun (in the reference-count path `self` still owns its fields while its destructor runs)
                    let (collecting, _, _) = rust_cc::verif::phase_flags();
                    let alive_outside = wt != NONE && t != id && w.created[t] && w.drops[t] == 0 && !w.unwrapped[t]
                        && (if collecting { reach_set()[t] } else { wt_count_before > 0 });
                    match up {
                        Some(c) => {
                            if !alive_outside || c.canary != CANARY + t as u32 {
                                w.bad_upgrade += 1;
                            }
                            stash_put(t, c);
                        }
                        None => {
                            if alive_outside {
                                w.bad_upgrade += 1;
                            }
                        }
                    }
                }
            }
            _ => {}
        }
    }
}

/// C11 model: a Cc to `t` is about to be dropped (the shadow model has already forgotten that pointer).
pub fn predict_drop(t: usize) {
    let w = w();
    if !w.predict {
        return;
    }
    let (collecting, _, _) = rust_cc::verif::phase_flags();
    if collecting {
        // the collector is destroying garbage: pointers from garbage to objects that stay alive buffer those objects
        if reach_set()[t] && w.drops[t] == 0 {
            w.buffered[t] = true;
        }
        return;
    }
    // one of several Ccs dropped => buffered; the last one => freed (and unbuffered)
    w.buffered[t] = model_count(t) >= 1;
}

/// C11 model: the object was cloned / marked alive / downgraded / upgraded: it leaves the buffer.
pub fn predict_alive(t: usize) {
    let w = w();
    if w.predict {
        w.buffered[t] = false;
    }
}

/// C11 model: a collection ran to completion at top level.
pub fn predict_collected_begin() {
    let w = w();
    if w.predict {
        w.buffered = [false; MAXN]; // every buffered object is taken out and processed
    }
}
pub fn predict_collected_end() {
    let w = w();
    if w.predict && cfg!(feature = "finalization") {
        // with finalization the collection repeats until the buffer is empty
        w.buffered = [false; MAXN];
    }
}

/// collect_cycles() requested from inside a callback: a no-op inside a running collection, a real collection otherwise.
pub fn nested_collect_request() {
    let w = w();
    let before = state::executions_count().unwrap_or(0);
    let (collecting, _, _) = rust_cc::verif::phase_flags();
    collect_cycles();
    let after = state::executions_count().unwrap_or(0);
    if collecting {
        if after != before {
            w.nested_collect += 1; // C12: collections never nest
        }
    } else if after != before + 1 {
        w.collect_missing += 1; // C02/C11: outside a collection the call starts exactly one
    }
}

/// Whether creating a Cc right now must start a collection: never from a callback of a running collection,
/// otherwise exactly when the documented policy says so.
pub fn expected_trigger() -> bool {
    #[cfg(feature = "auto-collect")]
    {
        let (collecting, _, _) = rust_cc::verif::phase_flags();
        if collecting {
            return false;
        }
        let (auto, bthr) = rust_cc::config::config(|c| (c.auto_collect(), c.buffered_objects_threshold().map_or(0, |x| x.get()))).unwrap_or((false, 0));
        let thr = rust_cc::verif::bytes_threshold().unwrap_or(usize::MAX);
        let allocated = state::allocated_bytes().unwrap_or(0);
        let buffered = state::buffered_objects_count().unwrap_or(0);
        auto && (allocated > thr || (bthr != 0 && buffered > bthr))
    }
    #[cfg(not(feature = "auto-collect"))]
    {
        false
    }
}

/// `already_finalized()` exists only with the finalization feature.
pub trait AlreadyFinalizedCompat {
    fn already_finalized_compat(&self) -> bool;
}
impl<T: Trace> AlreadyFinalizedCompat for Cc<T> {
    #[inline(always)]
    fn already_finalized_compat(&self) -> bool {
        #[cfg(feature = "finalization")]
        {
            self.already_finalized()
        }
        #[cfg(not(feature = "finalization"))]
        {
            true
        }
    }
}

// ------------------------------------------------------------------------------------------------
// Operations: each performs the real API call and mirrors it in the shadow model.

/// Creates node `i` with a program-held pointer in `h[i]`.
pub fn new_node(i: usize) {
    let w = w();
    // reserve the id first: Cc::new may start a collection whose finalizers create nodes themselves
    if i >= w.n {
        w.n = i + 1;
    }
    let before = state::allocated_bytes().unwrap_or(0);
    let c = Cc::new(Node {
        id: i,
        canary: CANARY + i as u32,
        slots: UnsafeCell::new([None, None]),
        untraced: UnsafeCell::new(None),
        #[cfg(feature = "weak-ptrs")]
        wslot: UnsafeCell::new(None),
        #[cfg(feature = "cleaners")]
        cleaner: rust_cc::cleaners::Cleaner::new(),
        #[cfg(feature = "cleaners")]
        after: AfterCleaner { id: i },
    });
    let after = state::allocated_bytes().unwrap_or(0);
    // every node has the same layout: measure the first one (created on an empty heap, so no collection can interfere)
    if w.boxsz0 == 0 {
        w.boxsz0 = (after.wrapping_sub(before)) as u64;
    }
    w.boxsz[i] = w.boxsz0;
    w.addr[i] = (&*c) as *const Node as usize;
    w.baddr[i] = rust_cc::verif::snapshot(&c).addr;
    w.created[i] = true;
    w.h[i] = Some(c);
    if i >= w.n {
        w.n = i + 1;
    }
}

/// Some program-held pointer to node `i`, if any.
#[inline]
pub fn handle(i: usize) -> Option<&'static Cc<Node>> {
    let w = w();
    if let Some(c) = &w.h[i] {
        return Some(c);
    }
    if let Some(c) = &w.h2[i] {
        return Some(c);
    }
    if let Some(c) = &w.stash[i] {
        return Some(c);
    }
    None
}

/// Some `Cc` pointing to node `id`: a program-held one, or one stored in a slot of an existing node.
pub fn any_cc(id: usize) -> Option<&'static Cc<Node>> {
    if let Some(c) = handle(id) {
        return Some(c);
    }
    let w = w();
    for j in 0..w.n {
        if w.drops[j] != 0 || !w.created[j] {
            continue;
        }
        if let Some(p) = node_ptr(j) {
            for s in 0..2 {
                if w.edge[j][s] == id as u8 {
                    if let Some(c) = &unsafe { &*p }.slots()[s] {
                        return Some(c);
                    }
                }
            }
            if w.uedge[j] == id as u8 {
                if let Some(c) = unsafe { &*p }.untraced() {
                    return Some(c);
                }
            }
        }
    }
    None
}

/// Finds, inside the graph, a `Cc` pointing to node `id` and clones it (used by resurrecting finalizers).
fn find_cc_to(id: usize) -> Option<Cc<Node>> {
    any_cc(id).map(|c| c.clone())
}

/// Raw pointer to the payload of node `j` as long as the model says it has not been dropped.
#[inline]
fn node_ptr(j: usize) -> Option<*const Node> {
    let w = w();
    if w.created[j] && w.drops[j] == 0 && !w.unwrapped[j] {
        Some(w.addr[j] as *const Node)
    } else {
        None
    }
}

pub fn stash_put_pub(i: usize, c: Cc<Node>) {
    stash_put(i, c)
}

fn stash_put(i: usize, c: Cc<Node>) {
    let w = w();
    if w.stash[i].is_none() {
        w.stash[i] = Some(c);
    } else {
        drop(c);
    }
}

#[inline]
fn model_target(i: usize, s: usize) -> u8 {
    w().edge[i][s]
}

/// node `i`.slots[s] = clone of a program-held pointer to `j` (the previous content is dropped).
pub fn set_slot(i: usize, s: usize, j: usize) {
    let w = w();
    let Some(src) = handle(j) else { return };
    let Some(owner) = handle(i) else { return };
    let c = src.clone();
    let old = core::mem::replace(&mut owner.slots()[s], Some(c));
    let old_t = w.edge[i][s];
    w.edge[i][s] = j as u8;
    predict_alive(j);
    note_unreachable();
    if old_t != NONE {
        predict_drop(old_t as usize);
    }
    drop(old);
}

/// Clears slot `s` of node `i`. At top level a program can only do this to objects it can reach.
pub fn clear_slot_top(i: usize, s: usize) {
    if model_reachable(i) {
        clear_slot(i, s);
    }
}

pub fn clear_slot(i: usize, s: usize) {
    let w = w();
    let Some(p) = node_ptr(i) else { return };
    let old = unsafe { &*p }.slots()[s].take();
    let old_t = w.edge[i][s];
    w.edge[i][s] = NONE;
    note_unreachable();
    if old_t != NONE {
        predict_drop(old_t as usize);
    }
    drop(old);
}

pub fn set_untraced(i: usize, j: usize) {
    let w = w();
    let Some(src) = handle(j) else { return };
    let Some(owner) = handle(i) else { return };
    let c = src.clone();
    let old = core::mem::replace(owner.untraced(), Some(c));
    w.uedge[i] = j as u8;
    note_unreachable();
    drop(old);
}

pub fn clone_h(i: usize) {
    let w = w();
    if w.h2[i].is_some() {
        return;
    }
    let Some(src) = handle(i) else { return };
    let c = src.clone();
    predict_alive(i);
    w.h2[i] = Some(c);
}

pub fn drop_h(i: usize) {
    let c = w().h[i].take();
    note_unreachable();
    if c.is_some() {
        predict_drop(i);
    }
    drop(c);
}

pub fn drop_h2(i: usize) {
    let c = w().h2[i].take();
    note_unreachable();
    if c.is_some() {
        predict_drop(i);
    }
    drop(c);
}

pub fn drop_stash(i: usize) {
    let c = w().stash[i].take();
    note_unreachable();
    drop(c);
}

pub fn mark_alive(i: usize) {
    if let Some(c) = handle(i) {
        predict_alive(i);
        c.mark_alive();
    }
}

/// Adds `n` phantom strong references to node `i` (see the hook's documentation).
pub fn add_phantom(i: usize, n: u16) {
    let w = w();
    if let Some(c) = handle(i) {
        if rust_cc::verif::add_phantom_strong(c, n) {
            w.phantom[i] += n;
        }
    }
}

// ------------------------------------------------------------------------------------------------
// Shadow model queries

/// Number of program-held pointers to `i`.
pub fn held(i: usize) -> u32 {
    let w = w();
    let mut c = w.h[i].is_some() as u32 + w.h2[i].is_some() as u32 + w.stash[i].is_some() as u32 + w.phantom[i] as u32;
    #[cfg(feature = "cleaners")]
    {
        c += crate::h_clean::captured_pointers_to(i);
    }
    c
}

/// Number of `Cc`s to `i` that exist according to the model.
pub fn model_count(i: usize) -> u32 {
    let w = w();
    let mut c = held(i);
    for j in 0..w.n {
        if !w.created[j] || w.drops[j] != 0 {
            continue;
        }
        for s in 0..2 {
            if w.edge[j][s] == i as u8 {
                c += 1;
            }
        }
        if w.uedge[j] == i as u8 {
            c += 1;
        }
    }
    c
}

/// Reachability from program-held pointers through traced and untraced edges.
pub fn reach_set() -> [bool; MAXN] {
    let w = w();
    let mut r = [false; MAXN];
    for i in 0..w.n {
        r[i] = w.created[i] && held(i) > 0;
    }
    for _ in 0..w.n {
        for i in 0..w.n {
            if r[i] && w.drops[i] == 0 {
                for s in 0..2 {
                    let t = w.edge[i][s];
                    if t != NONE {
                        r[t as usize] = true;
                    }
                }
                let t = w.uedge[i];
                if t != NONE {
                    r[t as usize] = true;
                }
            }
        }
    }
    r
}

/// Objects reachable from object `id` (itself included) through traced and untraced edges.
pub fn reach_from(id: usize) -> [bool; MAXN] {
    let w = w();
    let mut r = [false; MAXN];
    r[id] = true;
    for _ in 0..w.n {
        for i in 0..w.n {
            if r[i] && w.drops[i] == 0 {
                for s in 0..2 {
                    let t = w.edge[i][s];
                    if t != NONE {
                        r[t as usize] = true;
                    }
                }
                let t = w.uedge[i];
                if t != NONE {
                    r[t as usize] = true;
                }
            }
        }
    }
    r
}

/// Records which objects are unreachable right now. Called after every model update that can shrink reachability,
/// before the real pointer is released - i.e. before any finalizer can run because of it.
pub fn note_unreachable() {
    let w = w();
    let r = reach_set();
    for i in 0..w.n {
        if w.created[i] && !r[i] {
            w.ever_unreachable[i] = true;
        }
    }
}

pub fn model_reachable(i: usize) -> bool {
    reach_set()[i]
}

/// Unreachable objects that the collector cannot be expected to reclaim: those with an untraced incoming
/// edge from an existing object, and everything reachable from them.
pub fn pinned_set() -> [bool; MAXN] {
    let w = w();
    let mut p = [false; MAXN];
    for j in 0..w.n {
        if w.created[j] && w.drops[j] == 0 && w.uedge[j] != NONE {
            p[w.uedge[j] as usize] = true;
        }
    }
    for _ in 0..w.n {
        for i in 0..w.n {
            if p[i] && w.drops[i] == 0 {
                for s in 0..2 {
                    let t = w.edge[i][s];
                    if t != NONE {
                        p[t as usize] = true;
                    }
                }
                let t = w.uedge[i];
                if t != NONE {
                    p[t as usize] = true;
                }
            }
        }
    }
    p
}

// ------------------------------------------------------------------------------------------------
// Oracles. Obligation ids: base + small offset, so a failing id names the clause.

/// C01 (+ the exact-count clause of C04): every object the program can reach is intact.
pub fn oracle_safety(base: u32) {
    let w = w();
    let r = reach_set();
    for i in 0..w.n {
        if !w.created[i] {
            continue;
        }
        check(w.drops[i] <= 1, base + 1); // C03: dropped at most once
        if r[i] {
            check(w.drops[i] == 0, base + 2); // C01: not dropped
            if w.drops[i] == 0 {
                if let Some(c) = any_cc(i) {
                    check(c.canary == CANARY + i as u32, base + 3); // C01: intact value
                    check(c.id == i, base + 3);
                    let sc = c.strong_count();
                    let mc = model_count(i);
                    if w.tainted {
                        check(sc >= mc, base + 4); // C04: after a caught panic never too low
                    } else {
                        check(sc == mc, base + 5); // C04: exact
                    }
                }
            }
        }
    }
    check(w.bad_phase == 0, base + 6); // C12
    check(w.fin_on_live == 0, base + 7); // C05
    check(w.saw_dropped == 0, base + 8); // C05 / C01
    check(w.fin_after_drop == 0, base + 9); // C05
    check(w.drop_unfinalized == 0, base + 10); // C05: finalized before dropped
    check(w.nested_collect == 0, base + 12); // C12: collections never nest
    check(w.bad_upgrade == 0, base + 16); // C08: upgrades inside callbacks agree with the model
    check(w.bad_trigger == 0, base + 17); // C15/C12: allocation-triggered collections follow the policy, never nest
    check(w.collect_missing == 0, base + 18); // C02: collect_cycles() outside a collection always collects
    check(w.bad_ptr_eq == 0, base + 19); // C20
    for i in 0..w.n {
        if !w.created[i] {
            continue;
        }
        if cfg!(feature = "finalization") {
            check(w.fins[i] <= 1 + w.rearm[i], base + 13); // C05: at most once unless re-armed
            if w.born_in_fin[i] {
                check(w.fins[i] <= w.rearm[i], base + 14); // C05: objects created in a finalizer are never finalized automatically
            }
        } else {
            check(w.fins[i] == 0, base + 15); // C05: feature off => never called
        }
    }
}

/// C04: reference counting alone reclaims at once (valid at top level whenever no panic was caught).
pub fn oracle_rc(base: u32) {
    let w = w();
    for i in 0..w.n {
        // after a caught panic only the objects involved in the unwound call may have a count that is too high (a leak)
        if w.created[i] && !w.rc_tainted[i] && model_count(i) == 0 {
            check(w.drops[i] == 1, base + 11);
        }
    }
}

/// A panic was caught: everything unreachable right now may have been involved in the unwound call.
pub fn taint_after_panic() {
    let w = w();
    w.tainted = true;
    w.in_collect = false;
    let r = reach_set();
    for i in 0..w.n {
        if w.created[i] && !r[i] {
            w.rc_tainted[i] = true;
        }
    }
}

/// C02 + C11 (byte count): after a quiescent collection all reclaimable garbage is gone.
pub fn oracle_complete(base: u32) {
    let w = w();
    if w.tainted {
        return;
    }
    let r = reach_set();
    let p = pinned_set();
    let mut bytes: u64 = 0;
    for i in 0..w.n {
        if !w.created[i] {
            continue;
        }
        if !r[i] && !p[i] {
            check(w.drops[i] == 1, base + 21); // C02: reclaimed
        }
        if w.drops[i] == 0 && !w.unwrapped[i] {
            bytes += w.boxsz[i];
        }
    }
    check(state::allocated_bytes().unwrap_or(usize::MAX) as u64 == bytes + w.extra_bytes, base + 22); // C02/C11
}

/// Collect until a call runs no finalizer and no destructor (at most `max` calls).
pub fn collect_quiescent(max: u32, base: u32) {
    let w = w();
    let mut i = 0;
    loop {
        let d0 = w.count[K_DROP as usize];
        let f0 = w.count[K_FINALIZE as usize];
        w.in_collect = true;
        predict_collected_begin();
        collect_cycles();
        predict_collected_end();
        w.in_collect = false;
        if w.count[K_DROP as usize] == d0 && w.count[K_FINALIZE as usize] == f0 {
            break;
        }
        i += 1;
        if i >= max {
            check(false, base + 23); // did not become quiescent within the bound
            break;
        }
    }
}
