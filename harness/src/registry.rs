//! Name -> entry point table for the native replay binary.
macro_rules! registry {
    ($($(#[$a:meta])* $m:ident :: $f:ident),* $(,)?) => {
        pub fn lookup(name: &str) -> Option<fn()> {
            match name {
                $( $(#[$a])* stringify!($f) => Some(crate::$m::$f as fn()), )*
                _ => None,
            }
        }
        pub fn names() -> Vec<&'static str> {
            vec![$( $(#[$a])* stringify!($f), )*]
        }
    };
}

registry! {
    h_graph::h_graph_n2,
    h_graph::h_graph_n3,
    h_graph::h_graph_n3_untraced,
    h_graph::h_graph_n3_s2,
    h_graph::h_graph_twin,
    h_graph::h_buffer_n3,
    h_graph::h_graph_small,
    h_panic::h_panic_n2,
    h_panic::h_panic_n3,
    h_panic::h_panic_n3_hist,
    h_panic::h_panic_n2_two,
    h_panic::h_panic_twin,
    h_panic::h_panic_n4_trace,
    h_panic::h_panic_n4_q,
    h_panic::h_panic_fin_n2,
    h_fin::h_fin_n2,
    h_fin::h_fin_n3,
    h_fin::h_fin_n3_stash,
    #[cfg(feature = "weak-ptrs")]
    h_fin::h_fin_weak_n2,
    #[cfg(feature = "weak-ptrs")]
    h_fin::h_fin_weak_n3,
    h_fin::h_fin_twin,
    h_fin::h_chain12,
    h_api::h_unwrap,
    #[cfg(feature = "weak-ptrs")]
    h_api::h_unwrap_weak,
    h_api::h_unwrap_twin,
    h_api::h_nest_n2,
    h_api::h_nest_n2_full,
    h_api::h_nest_twin,
    h_count::h_sat_strong,
    h_count::h_sat_inlist,
    #[cfg(feature = "weak-ptrs")]
    h_count::h_sat_weak,
    h_count::h_counter_kernel,
    #[cfg(feature = "weak-ptrs")]
    h_count::h_weak_kernel,
    h_count::h_count_twin,
    h_tls::h_tls,
    h_tls::h_tls_twin,
    h_fmt::h_fmt_forward,
    h_fmt::h_fmt_twin,
    h_prog::h_prog_k3,
    h_prog::h_prog_k4,
    h_prog::h_prog_k5,
    #[cfg(feature = "weak-ptrs")]
    h_prog::h_prog_weak_k3,
    #[cfg(feature = "weak-ptrs")]
    h_prog::h_prog_weak_k4,
    h_prog::h_prog_twin,
    #[cfg(feature = "cleaners")]
    h_clean::h_clean_n2,
    #[cfg(feature = "cleaners")]
    h_clean::h_clean_n2_a3,
    #[cfg(feature = "cleaners")]
    h_clean::h_clean_twin,
    #[cfg(feature = "cleaners")]
    h_clean::h_clean_panic,
    #[cfg(feature = "cleaners")]
    h_clean::h_clean_helper,
    h_layout::h_layout_grid,
    h_layout::h_layout_zst,
    h_layout::h_layout_small,
    h_layout::h_forward_ints,
    h_layout::h_forward_f64,
    h_layout::h_layout_twin,
    h_trace::h_finalize_forwarding,
    h_trace::h_trace_array0,
    h_trace::h_trace_array1,
    h_trace::h_trace_array2,
    h_trace::h_trace_array3,
    h_trace::h_trace_array32,
    h_trace::h_trace_array_option,
    h_trace::h_trace_assertunwindsafe,
    h_trace::h_trace_box,
    h_trace::h_trace_boxed_slice,
    h_trace::h_trace_manuallydrop,
    h_trace::h_trace_nonowning,
    h_trace::h_trace_option,
    h_trace::h_trace_option_box_tuple,
    h_trace::h_trace_refcell,
    h_trace::h_trace_refcell_vec,
    h_trace::h_trace_result,
    h_trace::h_trace_result_vec,
    h_trace::h_trace_tuple1,
    h_trace::h_trace_tuple10,
    h_trace::h_trace_tuple11,
    h_trace::h_trace_tuple12,
    h_trace::h_trace_tuple2,
    h_trace::h_trace_tuple3,
    h_trace::h_trace_tuple4,
    h_trace::h_trace_tuple5,
    h_trace::h_trace_tuple6,
    h_trace::h_trace_tuple7,
    h_trace::h_trace_tuple8,
    h_trace::h_trace_tuple9,
    h_trace::h_trace_tuple_vec_option,
    h_trace::h_trace_twin,
    h_trace::h_trace_vec,
    h_trace::h_trace_vec_long,
    h_trace::h_trace_manuallydrop_cycle,
    h_trace::h_trace_vec_manuallydrop,
    h_trace::h_trace_vec_option,
    #[cfg(feature = "auto-collect")]
    h_policy::h_policy_trigger,
    #[cfg(feature = "auto-collect")]
    h_policy::h_policy_adjust_small,
    #[cfg(feature = "auto-collect")]
    h_policy::h_policy_adjust_full,
    #[cfg(feature = "auto-collect")]
    h_policy::h_policy_adjust_mid,
    #[cfg(feature = "auto-collect")]
    h_policy::h_policy_adjust_hi1,
    #[cfg(feature = "auto-collect")]
    h_policy::h_policy_adjust_hi2,
    #[cfg(feature = "auto-collect")]
    h_policy::h_policy_wiring,
    #[cfg(feature = "auto-collect")]
    h_policy::h_policy_wiring4,
    #[cfg(feature = "auto-collect")]
    h_policy::h_policy_twin,
    #[cfg(feature = "weak-ptrs")]
    h_cyclic::h_cyclic,
    #[cfg(feature = "weak-ptrs")]
    h_cyclic::h_cyclic_in_drop,
    #[cfg(feature = "weak-ptrs")]
    h_cyclic::h_cyclic_twin,
    #[cfg(feature = "weak-ptrs")]
    h_weak::h_weak_prog_n2,
    #[cfg(feature = "weak-ptrs")]
    h_weak::h_weak_prog_n1,
    #[cfg(feature = "weak-ptrs")]
    h_weak::h_weak_cb_n2,
    #[cfg(feature = "weak-ptrs")]
    h_weak::h_weak_cb_ring3,
    #[cfg(feature = "weak-ptrs")]
    h_weak::h_weak_twin,
    #[cfg(feature = "weak-ptrs")]
    h_weak::h_weak_helper,
}
