//! The vocabulary shared by every harness: symbolic inputs, assumptions, obligations.
//!
//! Two back ends provide these functions:
//!  * the symbolic engine (`/verif/llsym`) interprets the undefined `verif_*` externs when it executes the
//!    LLVM IR of this crate: `verif_any_*` create fresh solver variables, `verif_assert` is a proof obligation;
//!  * with `--features native` the same functions read a concrete input vector (the solver's model) so that a
//!    counterexample can be replayed against the real, natively compiled code before it is reported.

#[cfg(not(feature = "native"))]
mod imp {
    extern "C" {
        pub fn verif_any_bool() -> bool;
        pub fn verif_any_u8() -> u8;
        pub fn verif_any_u16() -> u16;
        pub fn verif_any_u32() -> u32;
        pub fn verif_any_u64() -> u64;
        pub fn verif_assume(c: bool);
        pub fn verif_choice(n: u8) -> u8;
        pub fn verif_assert(c: bool, id: u32);
        pub fn verif_cover(id: u32);
        pub fn verif_event(kind: u32, a: u64, b: u64);
        pub fn verif_heap_live() -> u64;
        pub fn verif_heap_bytes() -> u64;
    }
    extern "C-unwind" {
        pub fn verif_panic();
    }
}

#[cfg(feature = "native")]
mod imp {
    pub use crate::native::*;
}

#[inline(always)]
pub fn any_bool() -> bool { unsafe { imp::verif_any_bool() } }
#[inline(always)]
pub fn any_u8() -> u8 { unsafe { imp::verif_any_u8() } }
#[inline(always)]
pub fn any_u16() -> u16 { unsafe { imp::verif_any_u16() } }
#[inline(always)]
pub fn any_u32() -> u32 { unsafe { imp::verif_any_u32() } }
#[inline(always)]
pub fn any_u64() -> u64 { unsafe { imp::verif_any_u64() } }
#[inline(always)]
pub fn any_f64() -> f64 { f64::from_bits(any_u64()) }
#[inline(always)]
pub fn assume(c: bool) { unsafe { imp::verif_assume(c) } }
/// Proof obligation `id`: must hold on every path for every value of the symbolic inputs.
#[inline(always)]
pub fn check(c: bool, id: u32) { unsafe { imp::verif_assert(c, id) } }
/// Reachability witness: the run fails closed if a registered cover id is never reached.
#[inline(always)]
pub fn cover(id: u32) { unsafe { imp::verif_cover(id) } }
/// Appends to the event trace that the engine and the native run must agree on.
#[inline(always)]
pub fn event(kind: u32, a: u64, b: u64) { unsafe { imp::verif_event(kind, a, b) } }
/// Number of heap allocations that are currently live (allocation table of the engine / of the instrumented allocator).
#[inline(always)]
pub fn heap_live() -> u64 { unsafe { imp::verif_heap_live() } }
/// Total size of the live heap allocations.
#[inline(always)]
pub fn heap_bytes() -> u64 { unsafe { imp::verif_heap_bytes() } }
/// A panic raised by a user callback (real unwinding in both back ends; no message formatting).
#[inline(always)]
pub fn inject_panic() { unsafe { imp::verif_panic() } }

/// A symbolic value in `0..n` that only selects control flow (shape, operation, operand): the engine decides it
/// at its source, one successor per value. Values whose arithmetic matters (counts, sizes, indices compared
/// against counters) use `any_*` and stay solver variables.
#[inline(always)]
pub fn any_below(n: u8) -> u8 { unsafe { imp::verif_choice(n) } }

/// A symbolic value in `0..n` kept as a solver variable.
#[inline(always)]
pub fn any_below_sym(n: u8) -> u8 {
    let v = any_u8();
    assume(v < n);
    v
}
