//! E2: Kani / CBMC proof harnesses for the heap-free kernels (counter words, weak counter word, threshold policy).
//! An independent, off-the-shelf second opinion on the code where bit-blasting is strong. Full bit-width.
#![allow(unused)]

#[cfg(kani)]
mod proofs {
    use rust_cc::verif::counter_kernel::{apply, query};
    use rust_cc::verif::weak_kernel;

    fn valid_words() -> (u16, u16) {
        let tc: u16 = kani::any();
        let c: u16 = kani::any();
        kani::assume(c & 0x3FFF != 0x3FFF);
        kani::assume(tc & 0x3FFF != 0x3FFF);
        (tc, c)
    }

    #[kani::proof]
    fn strong_increment_saturates() {
        let (tc, c) = valid_words();
        let (tc2, c2, r) = apply(tc, c, 0);
        if c & 0x3FFF == 16382 {
            assert!(r == 1 && c2 == c && tc2 == tc);
        } else {
            assert!(r == 0 && c2 == c + 1 && (c2 & 0xC000) == (c & 0xC000) && tc2 == tc);
        }
    }

    #[kani::proof]
    fn strong_decrement() {
        let (tc, c) = valid_words();
        let (tc2, c2, r) = apply(tc, c, 1);
        if c & 0x3FFF == 0 {
            assert!(r == 1 && c2 == c && tc2 == tc);
        } else {
            assert!(r == 0 && c2 == c - 1 && (c2 & 0xC000) == (c & 0xC000) && tc2 == tc);
        }
    }

    #[kani::proof]
    fn tracing_increment_and_reset() {
        let (tc, c) = valid_words();
        let (tc2, c2, r) = apply(tc, c, 2);
        if tc & 0x3FFF == 16382 {
            assert!(r == 1 && tc2 == tc && c2 == c);
        } else {
            assert!(r == 0 && tc2 == tc + 1 && (tc2 & 0xC000) == (tc & 0xC000) && c2 == c);
        }
        let (tc3, c3, _) = apply(tc, c, 3);
        assert!(tc3 == tc & 0xC000 && c3 == c);
    }

    #[kani::proof]
    fn marks_and_flags_touch_only_their_bits() {
        let (tc, c) = valid_words();
        let op: u8 = kani::any();
        kani::assume(op >= 4 && op <= 12);
        let (tc2, c2, r) = apply(tc, c, op);
        if op <= 7 {
            let mark = (op - 4) as u16;
            assert!(tc2 == (tc & 0x3FFF) | (mark << 14) && c2 == c);
            assert!(query(tc2, c2, 5) == (mark >= 2) as u16);
            assert!(query(tc2, c2, 3) == (mark == 1) as u16);
        } else if op <= 9 {
            assert!(c2 == (c & !0x4000) | if op == 8 { 0x4000 } else { 0 });
            assert!(tc2 == tc && query(tc2, c2, 0) == c & 0x3FFF);
            assert!(query(tc2, c2, 6) == (op == 9) as u16);
        } else if op <= 11 {
            assert!(c2 == (c & !0x8000) | if op == 10 { 0x8000 } else { 0 });
            assert!(tc2 == tc && query(tc2, c2, 0) == c & 0x3FFF);
        } else {
            assert!(tc2 == tc | 0x3FFF && c2 == c && query(tc2, c2, 8) == 1);
        }
    }

    #[kani::proof]
    fn weak_word() {
        let w: u16 = kani::any();
        let op: u8 = kani::any();
        kani::assume(op < 4);
        let (w1, r) = weak_kernel::apply(w, op);
        match op {
            0 => {
                if w & 0x7FFF == 0x7FFF {
                    assert!(r == 1 && w1 == w);
                } else {
                    assert!(r == 0 && w1 == w + 1 && (w1 & 0x8000) == (w & 0x8000));
                }
            }
            1 => {
                if w & 0x7FFF == 0 {
                    assert!(r == 1 && w1 == w);
                } else {
                    assert!(r == 0 && w1 == w - 1 && (w1 & 0x8000) == (w & 0x8000));
                }
            }
            2 => assert!(w1 == w | 0x8000),
            _ => assert!(w1 == w & 0x7FFF),
        }
        assert!(weak_kernel::query(w1, 0) == w1 & 0x7FFF);
    }

    #[kani::proof]
    fn trigger_policy() {
        let thr: usize = kani::any();
        let bthr: usize = kani::any();
        let auto: bool = kani::any();
        let allocated: usize = kani::any();
        let buffered: usize = kani::any();
        let r = rust_cc::verif::policy_should_collect(thr, bthr, auto, allocated, buffered);
        assert!(r == (auto && (allocated > thr || (bthr != 0 && buffered > bthr))));
    }

    /// One adjust() step from the default threshold, all percents in [0,1], allocated < 2^40 (stated bound of this harness).
    #[kani::proof]
    #[kani::unwind(44)]
    fn adjust_from_default_threshold() {
        let p: f64 = kani::any();
        kani::assume(p >= 0.0 && p <= 1.0);
        let allocated: usize = kani::any();
        kani::assume(allocated < (1usize << 40));
        let t2 = rust_cc::verif::policy_adjust(100, p, allocated);
        assert!(t2 % 100 == 0 && (t2 / 100).is_power_of_two());
        assert!(t2 >= 100 && t2 > allocated);
        if p != 0.0 {
            assert!((allocated as f64) > (t2 as f64) * p || (t2 >> 1) <= allocated || t2 == 100);
        }
    }
}
