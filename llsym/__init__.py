"""llsym: bounded symbolic execution of rustc-emitted LLVM IR, decided by z3."""
