"""Forking symbolic executor over rustc-emitted LLVM IR with z3 as the deciding back end.

Heap shape and pointers are concrete; every scalar created by `verif_any_*` is a z3 bit-vector.
Branches on symbolic conditions fork after a feasibility query; harness obligations (`verif_assert`) and the
engine's own memory-safety obligations are discharged by z3 over the path condition. `invoke` / `landingpad` /
`resume` are executed, so Rust unwinding and the compiler-generated cleanup code are part of the encoding."""
import struct, time, bisect, os, sys
import z3

from .ir import *

U64 = (1 << 64) - 1


def is_sym(v):
    return isinstance(v, z3.ExprRef)


def is_bool(v):
    return isinstance(v, z3.BoolRef)


class Violation(Exception):
    def __init__(s, kind, msg, oid=None):
        s.kind = kind
        s.msg = msg
        s.oid = oid
        Exception.__init__(s, kind + ": " + msg)


class Unsupported(Exception):
    pass


class PathEnd(Exception):
    def __init__(s, why):
        s.why = why


class Budget(Exception):
    pass


# ----------------------------------------------------------------------------- memory
class MemObj:
    __slots__ = ('id', 'size', 'align', 'kind', 'alive', 'data', 'base', 'name', 'epoch', 'const')

    def __init__(s, id, size, align, kind, base, name='', epoch=0):
        s.id = id
        s.size = size
        s.align = align
        s.kind = kind
        s.alive = True
        s.data = {}
        s.base = base
        s.name = name
        s.epoch = epoch
        s.const = False

    def clone(s, epoch):
        o = MemObj(s.id, s.size, s.align, s.kind, s.base, s.name, epoch)
        o.alive = s.alive
        o.data = dict(s.data)
        o.const = s.const
        return o


_EPOCH = [1]


def new_epoch():
    _EPOCH[0] += 1
    return _EPOCH[0]


class Frame:
    __slots__ = ('fn', 'blk', 'idx', 'loc', 'prev', 'allocas', 'code')

    def __init__(s, fn):
        s.fn = fn
        s.blk = fn.entry
        s.code = fn.blocks[fn.entry]
        s.idx = 0
        s.loc = {}
        s.prev = None
        s.allocas = []

    def clone(s):
        o = Frame.__new__(Frame)
        o.fn = s.fn
        o.blk = s.blk
        o.code = s.code
        o.idx = s.idx
        o.loc = dict(s.loc)
        o.prev = s.prev
        o.allocas = list(s.allocas)
        return o


class State:
    def __init__(s):
        s.objs = {}
        s.next_id = 1
        s.next_base = 0x10000
        s.frames = []
        s.pc = []
        s.inputs = []
        s.events = []
        s.unw = None
        s.steps = 0
        s.globals = None
        s.epoch = new_epoch()
        s.model = None
        s.decisions = []
        s.tls_dtors = []
        s.covers = set()
        s.heap_live = 0
        s.heap_bytes = 0
        s.depth = 0

    def clone(s):
        o = State.__new__(State)
        o.objs = dict(s.objs)
        o.next_id = s.next_id
        o.next_base = s.next_base
        o.frames = [f.clone() for f in s.frames]
        o.pc = list(s.pc)
        o.inputs = list(s.inputs)
        o.events = list(s.events)
        o.unw = s.unw
        o.steps = s.steps
        o.globals = s.globals
        o.model = s.model
        o.decisions = list(s.decisions)
        o.tls_dtors = list(s.tls_dtors)
        o.covers = set(s.covers)
        o.heap_live = s.heap_live
        o.heap_bytes = s.heap_bytes
        o.depth = s.depth
        # both copies must stop writing in place into objects they now share
        o.epoch = new_epoch()
        s.epoch = new_epoch()
        return o

    def alloc(s, size, align, kind, name=''):
        align = max(align, 1)
        base = (s.next_base + align - 1) // align * align
        s.next_base = base + max(size, 1) + 32
        o = MemObj(s.next_id, size, align, kind, base, name, s.epoch)
        s.objs[o.id] = o
        s.next_id += 1
        return o

    def wobj(s, o):
        """object `o` made writable in this state"""
        if o.epoch != s.epoch:
            o = o.clone(s.epoch)
            s.objs[o.id] = o
        return o


class Stats:
    def __init__(s):
        s.paths = 0
        s.ended = {}
        s.forks = 0
        s.queries = 0
        s.solver_time = 0.0
        s.instrs = 0
        s.fn_hits = {}
        s.violations = []
        s.covers = set()
        s.asserts_checked = 0
        s.asserts_symbolic = 0
        s.mem_checks = 0
        s.max_depth = 0
        s.incomplete = None
        s.samples = []
        s.assert_ids = set()

    def merge(s, d):
        s.paths += d['paths']
        for k, v in d['ended'].items():
            s.ended[k] = s.ended.get(k, 0) + v
        s.forks += d['forks']
        s.queries += d['queries']
        s.solver_time += d['solver_time']
        s.instrs += d['instrs']
        for k, v in d['fn_hits'].items():
            s.fn_hits[k] = s.fn_hits.get(k, 0) + v
        s.violations.extend(d['violations'])
        s.covers |= set(d['covers'])
        s.asserts_checked += d['asserts_checked']
        s.asserts_symbolic += d['asserts_symbolic']
        s.mem_checks += d['mem_checks']
        s.max_depth = max(s.max_depth, d['max_depth'])
        s.assert_ids |= set(d['assert_ids'])
        if d['incomplete'] and not s.incomplete:
            s.incomplete = d['incomplete']
        for x in d['samples']:
            if len(s.samples) < 8:
                s.samples.append(x)

    def to_dict(s):
        return dict(paths=s.paths, ended=s.ended, forks=s.forks, queries=s.queries, solver_time=s.solver_time, instrs=s.instrs,
                    fn_hits=s.fn_hits, violations=s.violations, covers=sorted(s.covers), asserts_checked=s.asserts_checked,
                    asserts_symbolic=s.asserts_symbolic, mem_checks=s.mem_checks, max_depth=s.max_depth, incomplete=s.incomplete,
                    samples=s.samples, assert_ids=sorted(s.assert_ids))


F64 = z3.Float64()
RNE = z3.RNE()


def fbits(x):
    return struct.unpack('<Q', struct.pack('<d', x))[0]


def bitsf(x):
    return struct.unpack('<d', struct.pack('<Q', x & U64))[0]


class Engine:
    def __init__(s, mod, max_steps=3_000_000, solver_timeout_ms=60_000, max_violations=4, deadline=None, verbose=False):
        s.mod = mod
        s.solver = z3.Solver()
        s.solver.set('timeout', solver_timeout_ms)
        s.cur_pc = []
        s.stats = Stats()
        s.max_steps = max_steps
        s.max_violations = max_violations
        s.deadline = deadline
        s.verbose = verbose
        s.addr_index = None
        s.fn_addr = {}
        s.fn_by_addr = {}
        s.dispatch = {
            'bin': s.i_bin, 'icmp': s.i_icmp, 'fcmp': s.i_fcmp, 'cast': s.i_cast, 'load': s.i_load, 'store': s.i_store,
            'gep': s.i_gep, 'alloca': s.i_alloca, 'br': s.i_br, 'condbr': s.i_condbr, 'switch': s.i_switch, 'phi': s.i_phi,
            'select': s.i_select, 'call': s.i_call, 'ret': s.i_ret, 'resume': s.i_resume, 'landingpad': s.i_landingpad,
            'extractvalue': s.i_extractvalue, 'insertvalue': s.i_insertvalue, 'freeze': s.i_freeze, 'nop': s.i_nop,
            'unreachable': s.i_unreachable, 'fneg': s.i_fneg, 'unsupported': s.i_unsupported,
        }
        s.work = None
        s.init_state = None
        from . import externs as _ext
        s.intercepted = set(n for n in mod.funcs if _ext.intercepts(n))
        s.tls_teardown = False

    # ------------------------------------------------------------------ solver
    def sync(s, st):
        """make the solver's assertion stack equal to the state's path condition (one push level per constraint)"""
        pc = st.pc
        cur = s.cur_pc
        n = min(len(pc), len(cur))
        i = 0
        while i < n and pc[i] is cur[i]:
            i += 1
        sv = s.solver
        if len(cur) > i:
            sv.pop(len(cur) - i)
            del cur[i:]
        for c in pc[i:]:
            sv.push()
            sv.add(c)
            cur.append(c)

    def check(s, st, extra=None):
        """satisfiability of pc (+ extra); returns (sat, model)"""
        st_ = s.stats
        st_.queries += 1
        t0 = time.time()
        sv = s.solver
        s.sync(st)
        if extra is not None:
            sv.push()
            sv.add(extra)
            r = sv.check()
            m = sv.model() if r == z3.sat else None
            sv.pop()
        else:
            r = sv.check()
            m = sv.model() if r == z3.sat else None
        st_.solver_time += time.time() - t0
        if r == z3.unknown:
            raise Unsupported("solver returned unknown: " + sv.reason_unknown())
        return r == z3.sat, m

    def model_says(s, st, cond):
        """truth of cond under the state's cached model, or None"""
        m = st.model
        if m is None:
            return None
        v = m.eval(cond, model_completion=True)
        if z3.is_true(v):
            return True
        if z3.is_false(v):
            return False
        return None

    def branch(s, st, cond):
        """Decide a symbolic boolean: returns its value on this path; the other feasible side is pushed on the work list
        (it re-executes the current instruction with the negated condition added)."""
        cond = z3.simplify(cond)
        if z3.is_true(cond):
            return True
        if z3.is_false(cond):
            return False
        ms = s.model_says(st, cond)
        ncond = z3.Not(cond)
        if ms is True:
            sat_t, m_t = True, st.model
            sat_f, m_f = s.check(st, ncond)
        elif ms is False:
            sat_f, m_f = True, st.model
            sat_t, m_t = s.check(st, cond)
        else:
            sat_t, m_t = s.check(st, cond)
            sat_f, m_f = s.check(st, ncond)
        if sat_t and sat_f:
            other = st.clone()
            other.pc.append(ncond)
            other.model = m_f
            other.decisions.append(0)
            other.depth += 1
            s.work.append(other)
            s.stats.forks += 1
            st.pc.append(cond)
            st.model = m_t
            st.decisions.append(1)
            st.depth += 1
            return True
        if sat_t:
            st.pc.append(cond)
            st.model = m_t
            return True
        if sat_f:
            st.pc.append(ncond)
            st.model = m_f
            return False
        raise PathEnd("infeasible")

    def concretize(s, st, x, signed=False, limit=64):
        """fork over all feasible values of bit-vector x (small domains only); returns the value on this path"""
        if is_bool(x):
            return 1 if s.branch(st, x) else 0
        x = z3.simplify(x)
        if z3.is_bv_value(x):
            v = x.as_long()
            return sext(v, x.size()) if signed else v
        vals = []
        models = []
        ms = None
        if st.model is not None:
            mv = st.model.eval(x, model_completion=True)
            if z3.is_bv_value(mv):
                vals.append(mv.as_long())
                models.append(st.model)
        while len(vals) <= limit:
            sat, m = s.check(st, z3.And(*[x != v for v in vals]) if vals else None)
            if not sat:
                break
            vals.append(m.eval(x, model_completion=True).as_long())
            models.append(m)
        if not vals:
            raise PathEnd("infeasible")
        if len(vals) > limit:
            raise Unsupported("concretize: more than %d values" % limit)
        for v, m in list(zip(vals, models))[1:]:
            o = st.clone()
            o.pc.append(x == v)
            o.model = m
            o.decisions.append(v)
            o.depth += 1
            s.work.append(o)
            s.stats.forks += 1
        if len(vals) > 1:
            st.pc.append(x == vals[0])
            st.model = models[0]
            st.decisions.append(vals[0])
            st.depth += 1
        v = vals[0]
        return sext(v, x.size()) if signed else v

    # ------------------------------------------------------------------ globals
    def init_globals(s, st):
        st.globals = {}
        for name, (ty, init, al, const, tl) in s.mod.globals.items():
            o = st.alloc(size_of(ty), al, 'global', name)
            o.const = const
            st.globals[name] = o.id
        for name, tgt in s.mod.aliases.items():
            if tgt in st.globals:
                st.globals[name] = st.globals[tgt]
        for name, (ty, init, al, const, tl) in s.mod.globals.items():
            if init is not None:
                s.write_const(st, st.objs[st.globals[name]], 0, ty, init)
        # function addresses (for ptrtoint of function pointers and calls through loaded integers)
        a = 0x7f0000000000
        for n in sorted(set(s.mod.funcs) | s.mod.decls):
            s.fn_addr[n] = a
            s.fn_by_addr[a] = n
            a += 16

    def write_const(s, st, o, off, ty, v):
        t = resolve(ty)
        if isinstance(v, CExpr):
            if v.k == 'zero':
                for i in range(size_of(t)):
                    o.data[off + i] = (0, 1, 0)
                return
            if v.k == 'agg':
                if t.k in ('arr', 'vec'):
                    es = size_of(t.b)
                    for j, (it, iv) in enumerate(v.args[0]):
                        s.write_const(st, o, off + j * es, it, iv)
                else:
                    for j, (it, iv) in enumerate(v.args[0]):
                        s.write_const(st, o, off + field_off(t, j), it, iv)
                return
        val = s.const(st, v)
        if isinstance(val, bytes):
            for i, b in enumerate(val):
                o.data[off + i] = (b, 1, 0)
            return
        if val is UNDEF:
            return
        s.store_raw(o, off, size_of(t), val)

    @staticmethod
    def demote(d, off):
        """the cell covering byte `off` is about to be partially overwritten from `off` on: its head no longer vouches for it"""
        e = d.get(off)
        if e is not None and e[2] != 0:
            h = off - e[2]
            he = d.get(h)
            if he is not None and he[2] == 0 and he[1] > 1 and he[0] is e[0]:
                d[h] = (he[0], -he[1], 0)

    @staticmethod
    def store_raw(o, off, size, val):
        """Memory invariant: an entry (v, n, 0) with n > 1 (a cell head) guarantees that bytes 1..n-1 of that cell are intact.
        Whoever overwrites part of a cell whose head lies outside the written range demotes that head to (v, -n, 0)."""
        d = o.data
        e = d.get(off)
        if e is not None and e[2] != 0:
            h = off - e[2]
            he = d.get(h)
            if he is not None and he[2] == 0 and he[1] > 1 and he[0] is e[0]:
                d[h] = (he[0], -he[1], 0)
        if size == 8:
            d[off] = (val, 8, 0)
            d[off + 1] = (val, 8, 1)
            d[off + 2] = (val, 8, 2)
            d[off + 3] = (val, 8, 3)
            d[off + 4] = (val, 8, 4)
            d[off + 5] = (val, 8, 5)
            d[off + 6] = (val, 8, 6)
            d[off + 7] = (val, 8, 7)
        else:
            for i in range(size):
                d[off + i] = (val, size, i)

    def const(s, st, v):
        if isinstance(v, Glob):
            g = st.globals.get(v.n)
            if g is not None:
                return Ptr(g, 0)
            return FnRef(v.n)
        if isinstance(v, CExpr):
            k = v.k
            if k == 'inttoptr':
                return Ptr(None, s.const(st, v.args[0]))
            if k == 'ptrtoint':
                return mask(s.p2i(st, s.const(st, v.args[0])), resolve(v.args[1]).a)
            if k == 'gep':
                bt, base, idx = v.args
                b = s.const(st, base)
                off = s.gep_off(bt, [s.const(st, x) for x in idx])
                return Ptr(b.obj, b.off + off)
            if k == 'zero':
                t = resolve(v.args[0])
                if t.k == 'int':
                    return 0
                if t.k == 'ptr':
                    return Ptr(None, 0)
                if t.k == 'f64' or t.k == 'f32':
                    return 0.0
                if t.k == 'struct':
                    return ('aggv', [s.const(st, CExpr('zero', f)) for f in t.a])
                if t.k in ('arr', 'vec'):
                    return ('aggv', [s.const(st, CExpr('zero', t.b)) for _ in range(t.a)])
                raise Unsupported("zeroinitializer of " + repr(t))
            if k == 'agg':
                return ('aggv', [s.const(st, iv) for it, iv in v.args[0]])
            if k in ('add', 'sub'):
                t, a, b = v.args
                a = s.const(st, a)
                b = s.const(st, b)
                if isinstance(a, Ptr):
                    a = s.p2i(st, a)
                if isinstance(b, Ptr):
                    b = s.p2i(st, b)
                return mask(a + b if k == 'add' else a - b, resolve(t).a)
            raise Unsupported("const expr " + k)
        return v

    def gep_off(s, bt, idx):
        off = idx[0] * size_of(bt)
        t = resolve(bt)
        for i in idx[1:]:
            if t.k == 'struct':
                off += field_off(t, i)
                t = resolve(t.a[i])
            elif t.k in ('arr', 'vec'):
                off += i * size_of(t.b)
                t = resolve(t.b)
            else:
                raise Unsupported("gep into " + repr(t))
        return off

    def val(s, st, fr, v):
        if type(v) is Loc:
            try:
                return fr.loc[v.n]
            except KeyError:
                raise Unsupported("undefined local %s in %s" % (v.n, fr.fn.name))
        t = type(v)
        if t is Glob or t is CExpr:
            return s.const(st, v)
        return v

    # ------------------------------------------------------------------ memory access
    def obj_of(s, st, p, size, what):
        s.stats.mem_checks += 1
        if not isinstance(p, Ptr):
            if p is UNDEF:
                raise Violation('uninit-use', "%s through an undefined pointer" % what)
            if isinstance(p, int):
                p = s.i2p(st, p)
            else:
                raise Unsupported("%s via non-pointer %r" % (what, p))
        if p.obj is None:
            if size == 0:
                return None
            raise Violation('invalid-pointer', "%s of %d bytes through null/dangling address %#x" % (what, size, p.off))
        o = st.objs.get(p.obj)
        if o is None:
            raise Violation('use-after-free', "%s of %d bytes through a pointer to a dead stack slot (#%d)" % (what, size, p.obj), p.obj)
        if not o.alive:
            raise Violation('use-after-free', "%s of %d bytes at offset %d of freed %s object #%d (%d bytes)" % (what, size, p.off, o.kind, o.id, o.size), o.id)
        if is_sym(p.off):
            raise Unsupported("symbolic offset")
        if p.off < 0 or p.off + size > o.size:
            raise Violation('out-of-bounds', "%s [%d,%d) of %s object #%d of size %d" % (what, p.off, p.off + size, o.kind, o.id, o.size), o.id)
        return o

    def load(s, st, p, ty):
        t = resolve(ty)
        k = t.k
        if k == 'struct':
            return ('aggv', [s.load(st, Ptr(p.obj, p.off + field_off(t, j)), f) for j, f in enumerate(t.a)])
        if k in ('arr', 'vec'):
            es = size_of(t.b)
            return ('aggv', [s.load(st, Ptr(p.obj, p.off + j * es), t.b) for j in range(t.a)])
        size = (t.a + 7) // 8 if k == 'int' else size_of(t)  # integers: store size, not alloc size (i104 is 13 bytes)
        o = s.obj_of(st, p, size, 'load')
        if not isinstance(p, Ptr):
            p = s.i2p(st, p)
        d = o.data
        off = p.off
        first = d.get(off)
        if first is None:
            # uninitialised (or partially initialised) memory reads as undef; using it is reported separately
            return UNDEF
        v = first[0]
        if first[1] != size or first[2] != 0:
            parts = []
            for i in range(size):
                e = d.get(off + i)
                if e is None:
                    return UNDEF
                cv, cs, ci = e
                if isinstance(cv, Ptr):
                    cv = s.p2i(st, cv)
                elif isinstance(cv, FnRef):
                    cv = s.fn_addr[cv.name]
                elif isinstance(cv, float):
                    cv = fbits(cv)
                elif cv is UNDEF:
                    return UNDEF
                if is_sym(cv):
                    if is_bool(cv):
                        cv = z3.If(cv, z3.BitVecVal(1, 8), z3.BitVecVal(0, 8))
                    elif cv.sort().kind() == z3.Z3_FLOATING_POINT_SORT:
                        cv = z3.fpToIEEEBV(cv)
                    parts.append(z3.Extract(8 * ci + 7, 8 * ci, cv))
                else:
                    parts.append((cv >> (8 * ci)) & 0xff)
            if all(type(x) is int for x in parts):
                v = 0
                for i, b in enumerate(parts):
                    v |= b << (8 * i)
            else:
                bs = [x if is_sym(x) else z3.BitVecVal(x, 8) for x in parts]
                v = z3.simplify(z3.Concat(*reversed(bs))) if len(bs) > 1 else bs[0]
        # convert to the requested type
        if k == 'ptr':
            if type(v) is int:
                v = s.i2p(st, v)
            elif is_sym(v):
                v = s.i2p(st, s.concretize(st, v))
            elif isinstance(v, FnRef) or isinstance(v, Ptr):
                pass
            elif v is UNDEF:
                pass
            else:
                raise Unsupported("pointer load of %r" % (v,))
        elif k == 'int':
            if isinstance(v, Ptr):
                v = s.p2i(st, v)
            elif isinstance(v, FnRef):
                v = s.fn_addr[v.name]
            elif isinstance(v, float):
                v = fbits(v)
            if type(v) is int:
                v = mask(v, t.a)
            elif is_sym(v):
                if is_bool(v):
                    if t.a != 1:
                        v = z3.If(v, z3.BitVecVal(1, t.a), z3.BitVecVal(0, t.a))
                else:
                    if v.sort().kind() == z3.Z3_FLOATING_POINT_SORT:
                        v = z3.fpToIEEEBV(v)
                    if v.size() > t.a:
                        v = z3.Extract(t.a - 1, 0, v)
                        if t.a == 1:
                            v = v == 1
                    elif t.a == 1:
                        v = v == 1
        elif k == 'f64':
            if type(v) is int:
                v = bitsf(v)
            elif is_sym(v) and v.sort().kind() == z3.Z3_BV_SORT:
                v = z3.fpBVToFP(v, F64)
        elif k == 'f32':
            if type(v) is int:
                v = struct.unpack('<f', struct.pack('<I', v & 0xffffffff))[0]
            elif is_sym(v):
                raise Unsupported("symbolic f32")
        return v

    def store(s, st, p, ty, v):
        t = resolve(ty)
        k = t.k
        if k == 'struct':
            if v is UNDEF:
                v = ('aggv', [UNDEF] * len(t.a))
            for j, f in enumerate(t.a):
                s.store(st, Ptr(p.obj, p.off + field_off(t, j)), f, v[1][j])
            return
        if k in ('arr', 'vec'):
            es = size_of(t.b)
            if v is UNDEF:
                v = ('aggv', [UNDEF] * t.a)
            for j in range(t.a):
                s.store(st, Ptr(p.obj, p.off + j * es), t.b, v[1][j])
            return
        size = (t.a + 7) // 8 if k == 'int' else size_of(t)
        o = s.obj_of(st, p, size, 'store')
        if not isinstance(p, Ptr):
            p = s.i2p(st, p)
        if o.const:
            raise Violation('write-to-constant', "store into constant global %s" % o.name, o.id)
        o = st.wobj(o)
        if v is UNDEF:
            d = o.data
            s.demote(d, p.off)
            for i in range(size):
                d.pop(p.off + i, None)
            return
        if k == 'f32' and isinstance(v, float):
            v = struct.unpack('<I', struct.pack('<f', v))[0]
        if is_sym(v) and k == 'int':
            if is_bool(v):
                pass
            elif v.size() < size * 8:
                v = z3.ZeroExt(size * 8 - v.size(), v)
        s.store_raw(o, p.off, size, v)

    def p2i(s, st, p):
        if isinstance(p, FnRef):
            return s.fn_addr[p.name]
        if isinstance(p, int):
            return p
        if p.obj is None:
            return p.off
        o = st.objs.get(p.obj)
        if o is None:
            return 0xdead000000 + p.obj * 4096 + p.off  # dead stack slot: address only
        return o.base + p.off

    def i2p(s, st, i):
        if is_sym(i):
            raise Unsupported("symbolic inttoptr")
        if i in s.fn_by_addr:
            return FnRef(s.fn_by_addr[i])
        if i < 0x10000:
            return Ptr(None, i)
        for o in st.objs.values():
            if o.base <= i < o.base + max(o.size, 1):
                return Ptr(o.id, i - o.base)
            if i == o.base + o.size:
                return Ptr(o.id, o.size)
        return Ptr(None, i)

    # ------------------------------------------------------------------ search
    def link(s, st):
        """Resolve every constant operand (globals, function symbols, constant expressions) once: addresses of globals are fixed
        by init_globals, so instructions can carry the final values instead of re-evaluating them on every execution."""
        mod = s.mod
        if getattr(mod, 'linked', False):
            return
        const = s.const

        def res(x):
            t = type(x)
            if t is Glob or t is CExpr:
                return const(st, x)
            if t is tuple:
                return tuple(res(y) for y in x)
            if t is list:
                return [res(y) for y in x]
            if t is dict:
                return {k: res(v) for k, v in x.items()}
            return x
        seen = set()
        for f in mod.funcs.values():
            if id(f) in seen:
                continue
            seen.add(id(f))
            for lbl, code in f.blocks.items():
                for i, ins in enumerate(code):
                    code[i] = res(ins)
        mod.linked = True

    def start(s, entry):
        st = State()
        s.init_globals(st)
        s.link(st)
        f = s.mod.funcs.get(entry)
        if f is None:
            raise Unsupported("no such entry point: " + entry)
        st.frames.append(Frame(f))
        return st

    def explore(s, states, path_budget=None):
        """depth-first exploration of all paths from the given states"""
        s.work = list(states)
        stats = s.stats
        while s.work:
            if s.deadline is not None and time.time() > s.deadline:
                stats.incomplete = "time budget exhausted with %d states pending" % len(s.work)
                break
            if path_budget is not None and stats.paths >= path_budget:
                stats.incomplete = "path budget (%d) exhausted with %d states pending" % (path_budget, len(s.work))
                break
            if len(stats.violations) >= s.max_violations:
                stats.incomplete = "stopped after %d violations" % len(stats.violations)
                break
            st = s.work.pop()
            s.run_one(st)
        return stats

    def run_one(s, st):
        stats = s.stats
        steps0 = st.steps
        try:
            try:
                s.run_path(st)
            finally:
                stats.instrs += st.steps - steps0
        except PathEnd as e:
            stats.paths += 1
            stats.ended[e.why] = stats.ended.get(e.why, 0) + 1
            stats.covers |= st.covers
            stats.max_depth = max(stats.max_depth, st.depth)
            if e.why == 'returned' and len(stats.samples) < 4:
                stats.samples.append(s.describe_path(st))
        except Violation as v:
            stats.paths += 1
            stats.ended['violation'] = stats.ended.get('violation', 0) + 1
            s.record_violation(st, v.kind, v.msg)

    def describe_path(s, st):
        sat, m = (True, st.model) if st.model is not None else s.check(st)
        evs = []
        for e in st.events:
            if e[0] == 'ev':
                row = []
                for x in e[1:]:
                    if is_sym(x):
                        x = m.eval(x, model_completion=True)
                        x = (1 if z3.is_true(x) else 0) if is_bool(x) else x.as_long()
                    row.append(x)
                evs.append(row)
        return dict(inputs=s.model_inputs(st, m), decisions=len(st.decisions), path_condition=[str(c)[:200] for c in st.pc[:12]],
                    steps=st.steps, events=evs)

    def record_violation(s, st, kind, msg, extra=None):
        sat, m = s.check(st, extra)
        if not sat:
            return
        where = [f.fn.name for f in st.frames[-6:]]
        s.stats.violations.append(dict(kind=kind, msg=msg, inputs=s.model_inputs(st, m), stack=[demangle(x) for x in where],
                                       events=[list(map(str, e)) for e in st.events[-30:]], tainted=False))
        if s.verbose:
            print("  [violation] %s: %s inputs=%s" % (kind, msg, s.stats.violations[-1]['inputs']), file=sys.stderr)

    def model_inputs(s, st, m):
        out = []
        for name, var in st.inputs:
            if m is None:
                out.append(0)
                continue
            v = m.eval(var, model_completion=True)
            if is_bool(v):
                out.append(1 if z3.is_true(v) else 0)
            else:
                out.append(v.as_long())
        return out

    def run_path(s, st):
        dispatch = s.dispatch
        stats = s.stats
        max_steps = s.max_steps
        while True:
            if st.unw is not None:
                s.do_unwind(st)
                continue
            fr = st.frames[-1]
            ins = fr.code[fr.idx]
            st.steps += 1
            if st.steps > max_steps:
                raise Violation('non-termination', "path exceeded the step bound of %d instructions" % max_steps)
            dispatch[ins[0]](st, fr, ins)

    # ------------------------------------------------------------------ instructions
    def i_nop(s, st, fr, ins):
        fr.idx += 1

    def i_bin(s, st, fr, ins):
        _, dst, op, t, a, b = ins
        loc = fr.loc
        if type(a) is Loc:
            a = loc[a.n]
        if type(b) is Loc:
            b = loc[b.n]
        loc[dst] = s.binop(op, t, a, b, st)
        fr.idx += 1

    def i_icmp(s, st, fr, ins):
        _, dst, pred, t, a, b = ins
        loc = fr.loc
        if type(a) is Loc:
            a = loc[a.n]
        if type(b) is Loc:
            b = loc[b.n]
        if type(a) is int and type(b) is int:
            # concrete fast path
            if pred == 'eq':
                loc[dst] = 1 if a == b else 0
            elif pred == 'ne':
                loc[dst] = 1 if a != b else 0
            elif pred == 'ult':
                loc[dst] = 1 if a < b else 0
            elif pred == 'ugt':
                loc[dst] = 1 if a > b else 0
            elif pred == 'ule':
                loc[dst] = 1 if a <= b else 0
            elif pred == 'uge':
                loc[dst] = 1 if a >= b else 0
            else:
                loc[dst] = s.icmp(st, pred, t, a, b)
        else:
            loc[dst] = s.icmp(st, pred, t, a, b)
        fr.idx += 1

    def i_fcmp(s, st, fr, ins):
        _, dst, pred, t, a, b = ins
        fr.loc[dst] = s.fcmp(pred, s.val(st, fr, a), s.val(st, fr, b))
        fr.idx += 1

    def i_cast(s, st, fr, ins):
        _, dst, op, t, a, t2 = ins
        if type(a) is Loc:
            a = fr.loc[a.n]
        if type(a) is int:
            if op == 'zext':
                fr.loc[dst] = a
                fr.idx += 1
                return
            if op == 'trunc':
                fr.loc[dst] = a & ((1 << t2.a) - 1)
                fr.idx += 1
                return
        fr.loc[dst] = s.cast(st, op, t, a, t2)
        fr.idx += 1

    def i_load(s, st, fr, ins):
        _, dst, t, a = ins
        if type(a) is Loc:
            a = fr.loc[a.n]
        # fast path: whole-cell load of a scalar from a live object
        if type(a) is Ptr and a.obj is not None:
            k = t.k
            if k == 'int' or k == 'ptr':
                o = st.objs.get(a.obj)
                if o is not None and o.alive:
                    off = a.off
                    size = t._size
                    if size is None:
                        size = size_of(t)
                    if 0 <= off and off + size <= o.size:
                        e = o.data.get(off)
                        if e is not None and e[1] == size and e[2] == 0:
                            v = e[0]
                            tv = type(v)
                            if (k == 'int' and tv is int and t.a == size * 8) or (k == 'ptr' and (tv is Ptr or tv is FnRef)):
                                s.stats.mem_checks += 1
                                fr.loc[dst] = v
                                fr.idx += 1
                                return
        fr.loc[dst] = s.load(st, a, t)
        fr.idx += 1

    def i_store(s, st, fr, ins):
        _, t, v, a = ins
        loc = fr.loc
        if type(a) is Loc:
            a = loc[a.n]
        if type(v) is Loc:
            v = loc[v.n]
        s.store(st, a, t, v)
        fr.idx += 1

    def i_gep(s, st, fr, ins):
        _, dst, bt, base, idx = ins
        loc = fr.loc
        b = loc[base.n] if type(base) is Loc else base
        if len(idx) == 1 and bt.k == 'int' and bt.a == 8:
            # the common form: byte offset
            x = idx[0][1]
            if type(x) is Loc:
                x = loc[x.n]
            if type(x) is int and type(b) is Ptr:
                w = idx[0][0].a
                if x >> (w - 1):
                    x -= 1 << w
                loc[dst] = Ptr(b.obj, b.off + x)
                fr.idx += 1
                return
        iv = []
        for it, x in idx:
            v = s.val(st, fr, x)
            if type(v) is int:
                v = sext(v, it.a)
            elif is_sym(v):
                v = s.concretize(st, v, signed=True)
            elif v is UNDEF:
                raise Violation('uninit-use', "getelementptr with an undefined index")
            iv.append(v)
        off = s.gep_off(bt, iv)
        if isinstance(b, Ptr):
            fr.loc[dst] = Ptr(b.obj, b.off + off)
        elif type(b) is int:
            fr.loc[dst] = Ptr(None, b + off)
        elif b is UNDEF:
            fr.loc[dst] = UNDEF
        elif isinstance(b, FnRef):
            fr.loc[dst] = Ptr(None, s.fn_addr[b.name] + off)
        else:
            raise Unsupported("gep on %r" % (b,))
        fr.idx += 1

    def i_alloca(s, st, fr, ins):
        _, dst, t, al = ins
        o = st.alloc(size_of(t), al, 'stack', dst)
        fr.allocas.append(o.id)
        fr.loc[dst] = Ptr(o.id, 0)
        fr.idx += 1

    def jump(s, fr, lbl):
        fr.prev = fr.blk
        fr.blk = lbl
        fr.code = fr.fn.blocks[lbl]
        fr.idx = 0

    def i_br(s, st, fr, ins):
        s.jump(fr, ins[1])

    def truth(s, st, c):
        if type(c) is int:
            return bool(c & 1)
        if c is UNDEF:
            raise Violation('uninit-use', "branch on an undefined value")
        if is_bool(c):
            return s.branch(st, c)
        return s.branch(st, c == 1)

    def i_condbr(s, st, fr, ins):
        c = ins[1]
        if type(c) is Loc:
            c = fr.loc[c.n]
        if type(c) is int:
            lbl = ins[2] if c & 1 else ins[3]
        else:
            lbl = ins[2] if s.truth(st, c) else ins[3]
        fr.prev = fr.blk
        fr.blk = lbl
        fr.code = fr.fn.blocks[lbl]
        fr.idx = 0

    def i_switch(s, st, fr, ins):
        _, t, v, d, cases = ins
        x = s.val(st, fr, v)
        if x is UNDEF:
            raise Violation('uninit-use', "switch on an undefined value")
        if is_sym(x):
            if is_bool(x):
                x = 1 if s.branch(st, x) else 0
            else:
                # fork per feasible target: decide case by case
                for cv, lbl in cases:
                    if s.branch(st, x == cv):
                        s.jump(fr, lbl)
                        return
                s.jump(fr, d)
                return
        tgt = d
        for cv, lbl in cases:
            if cv == x:
                tgt = lbl
                break
        s.jump(fr, tgt)

    def i_phi(s, st, fr, ins):
        blk = fr.code
        j = fr.idx
        vals = []
        prev = fr.prev
        while blk[j][0] == 'phi':
            _, dst, t, inc = blk[j]
            vals.append((dst, s.val(st, fr, inc[prev])))
            j += 1
        loc = fr.loc
        for dst, v in vals:
            loc[dst] = v
        fr.idx = j

    def i_select(s, st, fr, ins):
        _, dst, c, t, a, b = ins
        cv = s.val(st, fr, c)
        av = s.val(st, fr, a)
        bv = s.val(st, fr, b)
        if type(cv) is int:
            fr.loc[dst] = av if cv & 1 else bv
        elif cv is UNDEF:
            raise Violation('uninit-use', "select on an undefined value")
        else:
            if isinstance(cv, tuple):
                raise Unsupported("vector select")
            cb = cv if is_bool(cv) else cv == 1
            k = t.k
            if k == 'int' and (type(av) is int or is_sym(av)) and (type(bv) is int or is_sym(bv)):
                w = t.a
                if w == 1:
                    A = av if is_sym(av) else z3.BoolVal(bool(av))
                    B = bv if is_sym(bv) else z3.BoolVal(bool(bv))
                    if not is_bool(A):
                        A = A == 1
                    if not is_bool(B):
                        B = B == 1
                else:
                    A = av if is_sym(av) else z3.BitVecVal(av, w)
                    B = bv if is_sym(bv) else z3.BitVecVal(bv, w)
                fr.loc[dst] = z3.simplify(z3.If(cb, A, B))
            elif k == 'f64' and (isinstance(av, float) or is_sym(av)) and (isinstance(bv, float) or is_sym(bv)):
                A = av if is_sym(av) else z3.FPVal(av, F64)
                B = bv if is_sym(bv) else z3.FPVal(bv, F64)
                fr.loc[dst] = z3.If(cb, A, B)
            else:
                fr.loc[dst] = av if s.branch(st, cb) else bv
        fr.idx += 1

    def i_ret(s, st, fr, ins):
        rv = s.val(st, fr, ins[2]) if ins[1] is not None else None
        s.pop_frame(st)
        if not st.frames:
            s.finish(st)
            return
        cf = st.frames[-1]
        cins = cf.code[cf.idx]
        if cins[1] is not None:
            cf.loc[cins[1]] = rv
        if cins[5] is not None:
            s.jump(cf, cins[5])
        else:
            cf.idx += 1

    def finish(s, st):
        """the entry point returned"""
        if s.tls_teardown and st.tls_dtors:
            ptr, dtor = st.tls_dtors.pop()
            # run the next registered thread-local destructor (LIFO, as the platform does)
            s.push_call(st, dtor, [ptr], None)
            return
        raise PathEnd("returned")

    def i_resume(s, st, fr, ins):
        st.unw = s.val(st, fr, ins[1])
        s.pop_frame(st)
        if not st.frames:
            raise Violation('uncaught-panic', "a panic unwound out of the harness entry point")

    def i_landingpad(s, st, fr, ins):
        fr.loc[ins[1]] = fr.loc.pop('$exn')
        fr.idx += 1

    def i_extractvalue(s, st, fr, ins):
        _, dst, t, a, idx = ins
        v = s.val(st, fr, a)
        for i in idx:
            if v is UNDEF:
                break
            v = v[1][i]
        fr.loc[dst] = v
        fr.idx += 1

    def i_insertvalue(s, st, fr, ins):
        _, dst, t, a, t2, b, idx = ins
        v = s.val(st, fr, a)
        fr.loc[dst] = s.insert(v, resolve(t), idx, s.val(st, fr, b))
        fr.idx += 1

    def insert(s, v, t, idx, nv):
        n = len(t.a) if t.k == 'struct' else t.a
        if v is UNDEF:
            v = ('aggv', [UNDEF] * n)
        items = list(v[1])
        if len(idx) == 1:
            items[idx[0]] = nv
        else:
            sub = resolve(t.a[idx[0]] if t.k == 'struct' else t.b)
            items[idx[0]] = s.insert(items[idx[0]], sub, idx[1:], nv)
        return ('aggv', items)

    def i_freeze(s, st, fr, ins):
        v = s.val(st, fr, ins[3])
        if v is UNDEF:
            t = resolve(ins[2])
            v = 0 if t.k == 'int' else (Ptr(None, 0) if t.k == 'ptr' else v)
        fr.loc[ins[1]] = v
        fr.idx += 1

    def i_fneg(s, st, fr, ins):
        v = s.val(st, fr, ins[3])
        fr.loc[ins[1]] = -v if isinstance(v, float) else z3.fpNeg(v)
        fr.idx += 1

    def i_unsupported(s, st, fr, ins):
        raise Unsupported("reached an instruction the engine does not model in %s: %s" % (demangle(fr.fn.name), ins[1]))

    def i_unreachable(s, st, fr, ins):
        raise Violation('unreachable', "reached 'unreachable' in " + demangle(fr.fn.name))

    def pop_frame(s, st):
        fr = st.frames.pop()
        objs = st.objs
        for oid in fr.allocas:
            objs.pop(oid, None)

    def do_unwind(s, st):
        fr = st.frames[-1]
        ins = fr.code[fr.idx]
        if ins[0] == 'call' and ins[6] is not None:
            fr.loc['$exn'] = st.unw
            st.unw = None
            s.jump(fr, ins[6])
            return
        s.pop_frame(st)
        if not st.frames:
            raise Violation('uncaught-panic', "a panic unwound out of the harness entry point")

    # ------------------------------------------------------------------ scalar ops
    def binop(s, op, t, a, b, st):
        k = t.k
        if k == 'f64' or k == 'f32':
            if isinstance(a, float) and isinstance(b, float):
                if op == 'fmul':
                    r = a * b
                elif op == 'fadd':
                    r = a + b
                elif op == 'fsub':
                    r = a - b
                elif op == 'fdiv':
                    if b == 0:
                        r = float('nan') if (a == 0 or a != a) else (float('inf') if (a > 0) == (struct.pack('<d', b)[7] & 0x80 == 0) else float('-inf'))
                    else:
                        r = a / b
                else:
                    raise Unsupported(op)
                if k == 'f32':
                    r = struct.unpack('<f', struct.pack('<f', r))[0]
                return r
            if k == 'f32':
                raise Unsupported("symbolic f32")
            if a is UNDEF or b is UNDEF:
                return UNDEF
            A = a if is_sym(a) else z3.FPVal(a, F64)
            B = b if is_sym(b) else z3.FPVal(b, F64)
            return {'fmul': z3.fpMul, 'fadd': z3.fpAdd, 'fsub': z3.fpSub, 'fdiv': z3.fpDiv}[op](RNE, A, B)
        if k == 'vec':
            raise Unsupported("vector arithmetic")
        w = t.a
        if isinstance(a, (Ptr, FnRef)):
            a = s.p2i(st, a)
        if isinstance(b, (Ptr, FnRef)):
            b = s.p2i(st, b)
        if a is UNDEF or b is UNDEF:
            return UNDEF
        if type(a) is int and type(b) is int:
            if op == 'add':
                r = a + b
            elif op == 'sub':
                r = a - b
            elif op == 'mul':
                r = a * b
            elif op == 'and':
                r = a & b
            elif op == 'or':
                r = a | b
            elif op == 'xor':
                r = a ^ b
            elif op == 'shl':
                r = a << b if b < w else 0
            elif op == 'lshr':
                r = a >> b if b < w else 0
            elif op == 'ashr':
                r = sext(a, w) >> min(b, w - 1)
            elif op == 'udiv':
                if b == 0:
                    raise Violation('division-by-zero', "udiv by zero")
                r = a // b
            elif op == 'urem':
                if b == 0:
                    raise Violation('division-by-zero', "urem by zero")
                r = a % b
            elif op == 'sdiv':
                if b == 0:
                    raise Violation('division-by-zero', "sdiv by zero")
                sa, sb = sext(a, w), sext(b, w)
                r = abs(sa) // abs(sb)
                if (sa < 0) != (sb < 0):
                    r = -r
            elif op == 'srem':
                if b == 0:
                    raise Violation('division-by-zero', "srem by zero")
                sa, sb = sext(a, w), sext(b, w)
                r = abs(sa) % abs(sb)
                if sa < 0:
                    r = -r
            else:
                raise Unsupported(op)
            return r & ((1 << w) - 1)
        if w == 1:
            A = a if is_bool(a) else (z3.BoolVal(bool(a)) if type(a) is int else a == 1)
            B = b if is_bool(b) else (z3.BoolVal(bool(b)) if type(b) is int else b == 1)
            if op == 'and':
                return z3.simplify(z3.And(A, B))
            if op == 'or':
                return z3.simplify(z3.Or(A, B))
            if op in ('xor', 'add', 'sub'):
                return z3.simplify(z3.Xor(A, B))
            raise Unsupported("i1 " + op)
        A = a if is_sym(a) else z3.BitVecVal(a, w)
        B = b if is_sym(b) else z3.BitVecVal(b, w)
        if op == 'add':
            r = A + B
        elif op == 'sub':
            r = A - B
        elif op == 'mul':
            r = A * B
        elif op == 'and':
            r = A & B
        elif op == 'or':
            r = A | B
        elif op == 'xor':
            r = A ^ B
        elif op == 'shl':
            r = A << B
        elif op == 'lshr':
            r = z3.LShR(A, B)
        elif op == 'ashr':
            r = A >> B
        elif op == 'udiv':
            r = z3.UDiv(A, B)
        elif op == 'urem':
            r = z3.URem(A, B)
        elif op == 'sdiv':
            r = A / B
        elif op == 'srem':
            r = z3.SRem(A, B)
        else:
            raise Unsupported(op)
        return z3.simplify(r)

    def icmp(s, st, pred, t, a, b):
        if a is UNDEF or b is UNDEF:
            return UNDEF
        if t.k == 'ptr' or isinstance(a, (Ptr, FnRef)) or isinstance(b, (Ptr, FnRef)):
            if is_sym(a) or is_sym(b):
                raise Unsupported("symbolic pointer comparison")
            a = s.p2i(st, a)
            b = s.p2i(st, b)
            w = 64
        else:
            w = t.a
        if type(a) is int and type(b) is int:
            if pred == 'eq':
                return int(a == b)
            if pred == 'ne':
                return int(a != b)
            if pred == 'ult':
                return int(a < b)
            if pred == 'ule':
                return int(a <= b)
            if pred == 'ugt':
                return int(a > b)
            if pred == 'uge':
                return int(a >= b)
            sa, sb = sext(a, w), sext(b, w)
            return int({'slt': sa < sb, 'sle': sa <= sb, 'sgt': sa > sb, 'sge': sa >= sb}[pred])
        if w == 1:
            A = a if is_bool(a) else (z3.BoolVal(bool(a)) if type(a) is int else a == 1)
            B = b if is_bool(b) else (z3.BoolVal(bool(b)) if type(b) is int else b == 1)
            if pred == 'eq':
                return z3.simplify(A == B)
            if pred == 'ne':
                return z3.simplify(z3.Xor(A, B))
            A = z3.If(A, z3.BitVecVal(1, 1), z3.BitVecVal(0, 1))
            B = z3.If(B, z3.BitVecVal(1, 1), z3.BitVecVal(0, 1))
        else:
            A = a if is_sym(a) else z3.BitVecVal(a, w)
            B = b if is_sym(b) else z3.BitVecVal(b, w)
        if pred == 'eq':
            c = A == B
        elif pred == 'ne':
            c = A != B
        elif pred == 'ult':
            c = z3.ULT(A, B)
        elif pred == 'ule':
            c = z3.ULE(A, B)
        elif pred == 'ugt':
            c = z3.UGT(A, B)
        elif pred == 'uge':
            c = z3.UGE(A, B)
        elif pred == 'slt':
            c = A < B
        elif pred == 'sle':
            c = A <= B
        elif pred == 'sgt':
            c = A > B
        elif pred == 'sge':
            c = A >= B
        else:
            raise Unsupported(pred)
        return z3.simplify(c)

    def fcmp(s, pred, a, b):
        if a is UNDEF or b is UNDEF:
            return UNDEF
        if isinstance(a, float) and isinstance(b, float):
            un = a != a or b != b
            if pred == 'ord':
                return int(not un)
            if pred == 'uno':
                return int(un)
            if pred == 'true':
                return 1
            if pred == 'false':
                return 0
            o = {'eq': a == b, 'lt': a < b, 'le': a <= b, 'gt': a > b, 'ge': a >= b, 'ne': a != b}[pred[1:]]
            if pred[0] == 'o':
                return int((not un) and o)
            return int(un or o)
        A = a if is_sym(a) else z3.FPVal(a, F64)
        B = b if is_sym(b) else z3.FPVal(b, F64)
        un = z3.Or(z3.fpIsNaN(A), z3.fpIsNaN(B))
        if pred == 'ord':
            return z3.Not(un)
        if pred == 'uno':
            return un
        o = {'eq': z3.fpEQ, 'lt': z3.fpLT, 'le': z3.fpLEQ, 'gt': z3.fpGT, 'ge': z3.fpGEQ}.get(pred[1:])
        if o is not None:
            o = o(A, B)
        elif pred[1:] == 'ne':
            o = z3.Not(z3.fpEQ(A, B))
        else:
            raise Unsupported("fcmp " + pred)
        if pred[0] == 'o':
            return z3.simplify(z3.And(z3.Not(un), o))
        return z3.simplify(z3.Or(un, o))

    def cast(s, st, op, t, a, t2):
        if a is UNDEF:
            return UNDEF
        if op == 'ptrtoint' or op == 'ptrtoaddr':
            return mask(s.p2i(st, a), t2.a)
        if op == 'inttoptr':
            if is_sym(a):
                a = s.concretize(st, a)
            return s.i2p(st, a)
        if op == 'bitcast':
            k1, k2 = t.k, t2.k
            if k1 == k2:
                return a
            if k1 == 'f64' and k2 == 'int':
                return fbits(a) if isinstance(a, float) else z3.fpToIEEEBV(a)
            if k1 == 'int' and k2 == 'f64':
                return bitsf(a) if type(a) is int else z3.fpBVToFP(a, F64)
            if k1 == 'f32' and k2 == 'int' and isinstance(a, float):
                return struct.unpack('<I', struct.pack('<f', a))[0]
            if k1 == 'int' and k2 == 'f32' and type(a) is int:
                return struct.unpack('<f', struct.pack('<I', a))[0]
            raise Unsupported("bitcast %s -> %s" % (k1, k2))
        if op in ('uitofp', 'sitofp'):
            if type(a) is int:
                v = float(a if op == 'uitofp' else sext(a, t.a))
                if t2.k == 'f32':
                    v = struct.unpack('<f', struct.pack('<f', v))[0]
                return v
            if t2.k != 'f64':
                raise Unsupported("symbolic int -> f32")
            if is_bool(a):
                a = z3.If(a, z3.BitVecVal(1, 8), z3.BitVecVal(0, 8))
            return z3.fpToFPUnsigned(RNE, a, F64) if op == 'uitofp' else z3.fpToFP(RNE, a, F64)
        if op in ('fptoui', 'fptosi'):
            if isinstance(a, float):
                if a != a or a in (float('inf'), float('-inf')):
                    return UNDEF
                return mask(int(a), t2.a)
            return z3.fpToUBV(z3.RTZ(), a, z3.BitVecSort(t2.a)) if op == 'fptoui' else z3.fpToSBV(z3.RTZ(), a, z3.BitVecSort(t2.a))
        if op == 'fpext':
            if isinstance(a, float):
                return a
            raise Unsupported("symbolic fpext")
        if op == 'fptrunc':
            if isinstance(a, float):
                return struct.unpack('<f', struct.pack('<f', a))[0]
            raise Unsupported("symbolic fptrunc")
        w1, w2 = t.a, t2.a
        if t.k != 'int':
            raise Unsupported("%s on %s" % (op, t.k))
        if type(a) is int:
            if op == 'trunc':
                return a & ((1 << w2) - 1)
            if op == 'zext':
                return a
            if op == 'sext':
                return mask(sext(a, w1), w2)
        if isinstance(a, (Ptr, FnRef)):
            a = s.p2i(st, a)
            return s.cast(st, op, t, a, t2)
        if is_bool(a):
            if op == 'zext':
                return z3.If(a, z3.BitVecVal(1, w2), z3.BitVecVal(0, w2))
            if op == 'sext':
                return z3.If(a, z3.BitVecVal((1 << w2) - 1, w2), z3.BitVecVal(0, w2))
            if op == 'trunc':
                return a
        if op == 'trunc':
            r = z3.simplify(z3.Extract(w2 - 1, 0, a))
            return z3.simplify(r == 1) if w2 == 1 else r
        if op == 'zext':
            return z3.ZeroExt(w2 - w1, a)
        if op == 'sext':
            return z3.SignExt(w2 - w1, a)
        raise Unsupported(op)

    # ------------------------------------------------------------------ calls
    def push_call(s, st, f, av, _ins):
        if isinstance(f, FnRef):
            fn = s.mod.funcs.get(f.name)
            if fn is None:
                raise Unsupported("call of undefined function " + f.name)
        else:
            fn = f
        s.stats.fn_hits[fn.name] = s.stats.fn_hits.get(fn.name, 0) + 1
        nf = Frame(fn)
        loc = nf.loc
        for (t, n), a in zip(fn.params, av):
            loc[n] = a
        st.frames.append(nf)
        if len(st.frames) > 400:
            raise Violation('non-termination', "call depth exceeded 400 frames")

    def i_call(s, st, fr, ins):
        _, dst, rt, callee, args, ok, uw = ins
        cv = s.val(st, fr, callee)
        if isinstance(cv, Ptr):
            if cv.obj is None and cv.off in s.fn_by_addr:
                cv = FnRef(s.fn_by_addr[cv.off])
            else:
                raise Violation('invalid-call', "call through data pointer %r" % (cv,))
        if cv is UNDEF:
            raise Violation('uninit-use', "call through an undefined function pointer")
        name = cv.name
        av = [s.val(st, fr, a) if a is not None else None for t, a in args]
        f = s.mod.funcs.get(name)
        if f is not None and name not in s.intercepted:
            s.push_call(st, f, av, ins)
            return
        r = s.extern(st, fr, name, av, ins)
        if r is THROW:
            return
        if r is CALLED:
            return
        if dst is not None:
            fr.loc[dst] = r
        if ok is not None:
            s.jump(fr, ok)
        else:
            fr.idx += 1

    def finish_call(s, st, ins, r):
        """complete the extern call instruction `ins` at the top frame of `st` with return value r"""
        fr = st.frames[-1]
        if ins[1] is not None:
            fr.loc[ins[1]] = r
        if ins[5] is not None:
            s.jump(fr, ins[5])
        else:
            fr.idx += 1

    def extern(s, st, fr, name, av, ins):
        from . import externs
        return externs.call(s, st, fr, name, av, ins)


class _Marker:
    def __init__(s, n):
        s.n = n

    def __repr__(s):
        return s.n


THROW = _Marker('$throw')
CALLED = _Marker('$called')
