"""Models of everything the IR calls but does not define: LLVM intrinsics, the Rust allocator shim, the
panic entry points, TLS destructor registration, and the harness vocabulary (`verif_*`).

Every stub here is part of every claim the checks make (they are listed in the evidence files)."""
import z3

from .ir import *
from .engine import Violation, Unsupported, PathEnd, THROW, CALLED, is_sym, is_bool, U64

STUBS_DOC = [
    "global allocator (__rust_alloc/__rust_alloc_zeroed/__rust_realloc/__rust_dealloc): fresh object per call, addresses never reused, never fails",
    "core::panicking::{panic, panic_fmt, panic_const_*, panic_bounds_check, ...}, std::panicking::begin_panic, verif_panic: start unwinding; the message is not formatted and the panic hook is not run",
    "core::panicking::{panic_nounwind*, panic_cannot_unwind, panic_in_cleanup}, std::process::abort, llvm.trap: reported as process abort",
    "std::panicking::catch_unwind::cleanup: returns an opaque zero-sized Box<dyn Any + Send>",
    "thread-local destructor registration: recorded, run only by the thread-teardown model",
    "llvm.assume: adds its condition to the path condition; llvm.lifetime/noalias/expect: no-ops",
    "single thread; thread-locals are ordinary globals",
]


def intercepts(name):
    """Functions that are modelled by the engine even when the module defines them (whole-program LTO modules contain
    the allocator shim, the panic runtime and the TLS registration; their bodies end in libc / unwinder calls)."""
    if name.endswith(('___rust_alloc', '___rust_alloc_zeroed', '___rust_dealloc', '___rust_realloc', '___rust_no_alloc_shim_is_unstable_v2')):
        return True
    if 'panicking' in name and ('4core9panicking' in name or '3std9panicking' in name):
        d = demangle(name)
        for k in ('panic_fmt', 'panic_nounwind', 'panic_cannot_unwind', 'panic_in_cleanup', 'panic_bounds_check', 'panic_const', 'panicking::panic',
                  'panic_misaligned', 'panic_null_pointer', 'begin_panic', 'rust_panic', 'catch_unwind7cleanup', 'catch_unwind::cleanup', 'assert_failed',
                  'panic_display', 'panic_str', 'panic_explicit', 'unreachable_display', 'panic_invalid_enum'):
            if k in d or k in name:
                return True
    if name.endswith(('handle_alloc_error', '3std7process5abort', 'destructors10linux_like8register', '11destructors8register')):
        return True
    if name.endswith(('slice_index_fail', 'slice_start_index_len_fail', 'slice_end_index_len_fail', 'unwrap_failed', 'expect_failed',
                      'panic_already_borrowed', 'panic_already_mutably_borrowed', 'capacity_overflow', 'panic_access_error', 'len_mismatch_fail')):
        return True
    if 'raw_vec12handle_error' in name:
        return True
    if 'abort_on_dtor_unwind' in name and 'DtorUnwindGuard' in name:
        return True  # std aborts the process when a thread-local destructor unwinds
    return False


def _bv(x, w):
    return x if is_sym(x) else z3.BitVecVal(x, w)


def _len(e, st, n):
    if is_sym(n):
        n = e.concretize(st, n)
    return n


def call(e, st, fr, name, av, ins):
    if name.startswith('llvm.'):
        return llvm_intrinsic(e, st, fr, name, av, ins)
    if name.startswith('verif_'):
        return verif(e, st, fr, name, av, ins)
    # ---- allocator shim
    if name.endswith('___rust_no_alloc_shim_is_unstable_v2') or name.endswith('__rust_no_alloc_shim_is_unstable'):
        return None
    if name.endswith('___rust_alloc') or name.endswith('___rust_alloc_zeroed'):
        size, al = av[0], av[1]
        size = _len(e, st, size)
        al = _len(e, st, al)
        o = st.alloc(size, al, 'heap')
        st.heap_live += 1
        st.heap_bytes += size
        st.events.append(('alloc', o.id, size, al))
        if name.endswith('zeroed'):
            d = o.data
            for i in range(size):
                d[i] = (0, 1, 0)
        return Ptr(o.id, 0)
    if name.endswith('___rust_dealloc'):
        p, size, al = av
        size = _len(e, st, size)
        al = _len(e, st, al)
        dealloc(e, st, p, size, al)
        return None
    if name.endswith('___rust_realloc'):
        p, old, al, new = av
        old = _len(e, st, old)
        al = _len(e, st, al)
        new = _len(e, st, new)
        so = e.obj_of(st, p, 0, 'realloc')
        o = st.alloc(new, al, 'heap')
        st.heap_live += 1
        st.heap_bytes += new
        st.events.append(('alloc', o.id, new, al))
        n = min(old, new)
        sd = so.data
        d = o.data
        for i in range(n):
            x = sd.get(i)
            if x is not None:
                if x[2] == 0 and x[1] > 1 and i + x[1] > n:
                    x = (x[0], -x[1], 0)
                d[i] = x
        dealloc(e, st, p, old, al)
        return Ptr(o.id, 0)
    # ---- liballoc's non-generic RawVecInner<Global> methods (instantiated inside the precompiled std, so not in the IR).
    # Layout on the pinned toolchain (checked by the harness self-test h_selftest_vec): { cap: usize @0, ptr @8 }.
    if 'raw_vec' in name and 'RawVecInner' in name and name.find('15try_allocate_in') >= 0:
        res, capacity, zeroed, al, esz = av
        capacity = _len(e, st, capacity)
        al = _len(e, st, al)
        esz = _len(e, st, esz)
        e.store(st, res, int_ty(64), 0)  # Ok
        if capacity == 0 or esz == 0:
            e.store(st, Ptr(res.obj, res.off + 8), int_ty(64), 0)
            e.store(st, Ptr(res.obj, res.off + 16), T_PTR, Ptr(None, al))
            return None
        o = st.alloc(capacity * esz, al, 'heap')
        st.heap_live += 1
        st.heap_bytes += capacity * esz
        st.events.append(('alloc', o.id, capacity * esz, al))
        if type(zeroed) is int and zeroed & 1:
            d = o.data
            for i in range(capacity * esz):
                d[i] = (0, 1, 0)
        e.store(st, Ptr(res.obj, res.off + 8), int_ty(64), capacity)
        e.store(st, Ptr(res.obj, res.off + 16), T_PTR, Ptr(o.id, 0))
        return None
    if 'raw_vec' in name and 'RawVecInner' in name and name.find('14grow_amortized') >= 0:
        self_, ln, additional, al, esz = av
        ln = _len(e, st, ln)
        additional = _len(e, st, additional)
        al = _len(e, st, al)
        esz = _len(e, st, esz)
        if esz == 0:
            raise Unsupported("grow_amortized for zero-sized elements")
        cap = e.load(st, self_, int_ty(64))
        old = e.load(st, Ptr(self_.obj, self_.off + 8), T_PTR)
        if is_sym(cap):
            cap = e.concretize(st, cap)
        required = ln + additional
        new_cap = max(cap * 2, required, 8 if esz == 1 else (4 if esz <= 1024 else 1))
        o = st.alloc(new_cap * esz, al, 'heap')
        st.heap_live += 1
        st.heap_bytes += new_cap * esz
        st.events.append(('alloc', o.id, new_cap * esz, al))
        if cap > 0:
            so = e.obj_of(st, old, cap * esz, 'vec-grow-copy')
            sd = so.data
            d = o.data
            for i in range(cap * esz):
                x = sd.get(old.off + i)
                if x is not None:
                    d[i] = x
            dealloc(e, st, old, cap * esz, al)
        e.store(st, self_, int_ty(64), new_cap)
        e.store(st, Ptr(self_.obj, self_.off + 8), T_PTR, Ptr(o.id, 0))
        return ('aggv', [0x8000000000000001, 0])
    if 'raw_vec' in name and (name.find('RawVecInner10deallocate') >= 0 or ('6RawVec' in name and name.endswith('4Drop4drop' + name[name.rfind('4Drop4drop') + 10:]) and '4Drop4drop' in name)):
        self_ = av[0]
        if name.find('RawVecInner10deallocate') >= 0:
            al = _len(e, st, av[1])
            esz = _len(e, st, av[2])
        else:
            al, esz = 1, 1  # RawVec<u8> as Drop
        cap = e.load(st, self_, int_ty(64))
        if is_sym(cap):
            cap = e.concretize(st, cap)
        if cap != 0 and esz != 0:
            ptr = e.load(st, Ptr(self_.obj, self_.off + 8), T_PTR)
            dealloc(e, st, ptr, cap * esz, al)
        return None
    if name.endswith('handle_alloc_error'):
        raise Violation('abort', "handle_alloc_error reached although allocation never fails in the model")
    # ---- panics
    if 'panicking' in name:
        if name.endswith('catch_unwind7cleanup') or name.endswith('3try7cleanup'):
            vt = st.alloc(24, 8, 'global', 'dummy_any_vtable')
            e.store_raw(vt, 0, 8, Ptr(None, 0))
            e.store_raw(vt, 8, 8, 0)
            e.store_raw(vt, 16, 8, 1)
            st.events.append(('caught',))
            return ('aggv', [Ptr(None, 1), Ptr(vt.id, 0)])
        if 'nounwind' in name or 'cannot_unwind' in name or 'in_cleanup' in name:
            raise Violation('abort', "process abort via " + short(name))
        if 'panic_count' in name or name.endswith('9panicking'):
            raise Unsupported("extern " + name)
        st.events.append(('panic', short(name)))
        st.unw = ('aggv', [Ptr(None, 0xdead0), 0])
        return THROW
    if 'abort_on_dtor_unwind' in name and 'DtorUnwindGuard' in name:
        raise Violation('abort', "a thread-local destructor panicked: std aborts the process (abort_on_dtor_unwind)")
    if name.endswith('3std7process5abort') or name == 'abort':
        raise Violation('abort', "std::process::abort")
    if name.endswith('slice_index_fail') or name.endswith('slice_start_index_len_fail') or name.endswith('slice_end_index_len_fail') \
            or name.endswith('unwrap_failed') or name.endswith('expect_failed') or name.endswith('panic_already_borrowed') \
            or name.endswith('panic_already_mutably_borrowed') or name.endswith('capacity_overflow') or 'raw_vec12handle_error' in name \
            or name.endswith('panic_access_error') or name.endswith('len_mismatch_fail'):
        st.events.append(('panic', short(name)))
        st.unw = ('aggv', [Ptr(None, 0xdead0), 0])
        return THROW
    if name.endswith('destructors10linux_like8register') or name.endswith('11destructors8register'):
        st.tls_dtors.append((av[0], av[1]))
        return None
    if '__cxa_thread_atexit_impl' in name:
        st.tls_dtors.append((av[1], av[0]))
        return 0
    if name == 'rust_eh_personality':
        raise Unsupported("personality called")
    if name == 'memcmp' or name == 'bcmp':
        a, b, n = av
        n = _len(e, st, n)
        for i in range(n):
            x = e.load(st, Ptr(a.obj, a.off + i), int_ty(8))
            y = e.load(st, Ptr(b.obj, b.off + i), int_ty(8))
            if is_sym(x) or is_sym(y):
                if e.branch(st, _bv(x, 8) != _bv(y, 8)):
                    return 1 if name == 'bcmp' else (1 if e.branch(st, z3.UGT(_bv(x, 8), _bv(y, 8))) else 0xffffffff)
            elif x != y:
                return 1 if (name == 'bcmp' or x > y) else 0xffffffff
        return 0
    raise Unsupported("extern " + name)


def short(name):
    d = demangle(name)
    return d[-48:]


def dealloc(e, st, p, size, al):
    if p is UNDEF:
        raise Violation('uninit-use', "dealloc of an undefined pointer")
    if not isinstance(p, Ptr):
        p = e.i2p(st, p)
    if p.obj is None:
        raise Violation('bad-free', "dealloc of non-heap address %#x" % p.off)
    o = st.objs.get(p.obj)
    if o is None:
        raise Violation('bad-free', "dealloc of a dead stack slot")
    if not o.alive:
        raise Violation('double-free', "dealloc of already freed heap object #%d (%d bytes)" % (o.id, o.size), o.id)
    if o.kind != 'heap' or p.off != 0:
        raise Violation('bad-free', "dealloc of non-heap or interior pointer %r (%s)" % (p, o.kind), o.id)
    if o.size != size or o.align != al:
        raise Violation('bad-layout', "dealloc of object #%d with layout (size %d, align %d) but it was allocated with (size %d, align %d)" % (o.id, size, al, o.size, o.align), o.id)
    o = st.wobj(o)
    o.alive = False
    o.data = {}
    st.heap_live -= 1
    st.heap_bytes -= o.size
    st.events.append(('dealloc', o.id, size, al))


def llvm_intrinsic(e, st, fr, name, av, ins):
    if name.startswith(('llvm.lifetime', 'llvm.experimental.noalias', 'llvm.dbg.', 'llvm.prefetch', 'llvm.donothing', 'llvm.invariant')):
        return None
    if name == 'llvm.assume':
        c = av[0]
        if type(c) is int:
            if not c & 1:
                raise Violation('assume-violated', "llvm.assume(false) reached: undefined behaviour")
            return None
        if c is UNDEF:
            return None
        cb = c if is_bool(c) else c == 1
        # the negation being feasible means UB is reachable
        sat, m = e.check(st, z3.Not(cb))
        if sat:
            e.record_violation(st, 'assume-violated', "llvm.assume condition can be false: undefined behaviour", z3.Not(cb))
        st.pc.append(cb)
        if not e.check(st)[0]:
            raise PathEnd("infeasible")
        return None
    if name.startswith('llvm.threadlocal.address'):
        return av[0]
    if name.startswith('llvm.expect'):
        return av[0]
    if name.startswith('llvm.memcpy') or name.startswith('llvm.memmove'):
        d, sp, n = av[0], av[1], av[2]
        n = _len(e, st, n)
        if n == 0:
            return None
        so = e.obj_of(st, sp, n, 'memcpy-src')
        do = e.obj_of(st, d, n, 'memcpy-dst')
        if not isinstance(sp, Ptr):
            sp = e.i2p(st, sp)
        if not isinstance(d, Ptr):
            d = e.i2p(st, d)
        if do.const:
            raise Violation('write-to-constant', "memcpy into constant global %s" % do.name)
        sd = so.data
        tmp = [sd.get(sp.off + i) for i in range(n)]
        do = st.wobj(do)
        dd = do.data
        doff = d.off
        e.demote(dd, doff)
        for i, x in enumerate(tmp):
            if x is None:
                dd.pop(doff + i, None)
            else:
                if x[2] == 0 and x[1] > 1 and i + x[1] > n:
                    x = (x[0], -x[1], 0)  # the copy cuts this cell: its head must not vouch for the missing bytes
                dd[doff + i] = x
        return None
    if name.startswith('llvm.memset'):
        d, b, n = av[0], av[1], av[2]
        n = _len(e, st, n)
        if n == 0:
            return None
        do = e.obj_of(st, d, n, 'memset')
        if not isinstance(d, Ptr):
            d = e.i2p(st, d)
        do = st.wobj(do)
        dd = do.data
        e.demote(dd, d.off)
        cell = (b, 1, 0)
        for i in range(n):
            dd[d.off + i] = cell
        return None
    m = re.match(r'llvm\.(ctpop|ctlz|cttz|bswap|bitreverse|abs)\.i(\d+)', name)
    if m:
        op, w = m.group(1), int(m.group(2))
        x = av[0]
        if is_sym(x):
            x = e.concretize(st, x, limit=256)
        if op == 'ctpop':
            return bin(x).count('1')
        if op == 'ctlz':
            return w - x.bit_length()
        if op == 'cttz':
            return w if x == 0 else (x & -x).bit_length() - 1
        if op == 'bswap':
            return int.from_bytes(x.to_bytes(w // 8, 'little'), 'big')
        if op == 'abs':
            return mask(abs(sext(x, w)), w)
        if op == 'bitreverse':
            return int(bin(x)[2:].zfill(w)[::-1], 2)
    m = re.match(r'llvm\.(umax|umin|smax|smin)\.i(\d+)', name)
    if m:
        op, w = m.group(1), int(m.group(2))
        a, b = av[0], av[1]
        if type(a) is int and type(b) is int:
            if op[0] == 'u':
                return max(a, b) if op == 'umax' else min(a, b)
            sa, sb = sext(a, w), sext(b, w)
            return mask(max(sa, sb) if op == 'smax' else min(sa, sb), w)
        A, B = _bv(a, w), _bv(b, w)
        c = {'umax': z3.UGT(A, B), 'umin': z3.ULT(A, B), 'smax': A > B, 'smin': A < B}[op]
        return z3.simplify(z3.If(c, A, B))
    m = re.match(r'llvm\.(uadd|usub|umul|sadd|ssub|smul)\.with\.overflow\.i(\d+)', name)
    if m:
        op, w = m.group(1), int(m.group(2))
        a, b = av[0], av[1]
        if isinstance(a, (Ptr, FnRef)):
            a = e.p2i(st, a)
        if isinstance(b, (Ptr, FnRef)):
            b = e.p2i(st, b)
        if type(a) is int and type(b) is int:
            if op[0] == 'u':
                r = {'uadd': a + b, 'usub': a - b, 'umul': a * b}[op]
                return ('aggv', [mask(r, w), int(r < 0 or r >> w != 0)])
            sa, sb = sext(a, w), sext(b, w)
            r = {'sadd': sa + sb, 'ssub': sa - sb, 'smul': sa * sb}[op]
            return ('aggv', [mask(r, w), int(not (-(1 << (w - 1)) <= r < (1 << (w - 1))))])
        A, B = _bv(a, w), _bv(b, w)
        if op == 'uadd':
            r = A + B
            o = z3.ULT(r, A)
        elif op == 'usub':
            r = A - B
            o = z3.ULT(A, B)
        elif op == 'umul':
            r = A * B
            o = z3.Not(z3.BVMulNoOverflow(A, B, False))
        elif op == 'sadd':
            r = A + B
            o = z3.Or(z3.Not(z3.BVAddNoOverflow(A, B, True)), z3.Not(z3.BVAddNoUnderflow(A, B)))
        elif op == 'ssub':
            r = A - B
            o = z3.Or(z3.Not(z3.BVSubNoOverflow(A, B)), z3.Not(z3.BVSubNoUnderflow(A, B, True)))
        else:
            r = A * B
            o = z3.Or(z3.Not(z3.BVMulNoOverflow(A, B, True)), z3.Not(z3.BVMulNoUnderflow(A, B)))
        return ('aggv', [z3.simplify(r), z3.simplify(o)])
    m = re.match(r'llvm\.(scmp|ucmp)\.i(\d+)\.i(\d+)', name)
    if m:
        op, rw, w = m.group(1), int(m.group(2)), int(m.group(3))
        a, b = av[0], av[1]
        if type(a) is int and type(b) is int:
            if op == 'scmp':
                a, b = sext(a, w), sext(b, w)
            return mask((a > b) - (a < b), rw)
        A, B = _bv(a, w), _bv(b, w)
        lt = (A < B) if op == 'scmp' else z3.ULT(A, B)
        gt = (A > B) if op == 'scmp' else z3.UGT(A, B)
        return z3.simplify(z3.If(lt, z3.BitVecVal((1 << rw) - 1, rw), z3.If(gt, z3.BitVecVal(1, rw), z3.BitVecVal(0, rw))))
    m = re.match(r'llvm\.(uadd|usub)\.sat\.i(\d+)', name)
    if m:
        op, w = m.group(1), int(m.group(2))
        a, b = av[0], av[1]
        if type(a) is int and type(b) is int:
            return min(a + b, (1 << w) - 1) if op == 'uadd' else max(a - b, 0)
        A, B = _bv(a, w), _bv(b, w)
        if op == 'uadd':
            return z3.simplify(z3.If(z3.ULT(A + B, A), z3.BitVecVal((1 << w) - 1, w), A + B))
        return z3.simplify(z3.If(z3.ULT(A, B), z3.BitVecVal(0, w), A - B))
    m = re.match(r'llvm\.(fshl|fshr)\.i(\d+)', name)
    if m:
        op, w = m.group(1), int(m.group(2))
        a, b, c = av
        if type(a) is int and type(b) is int and type(c) is int:
            c %= w
            x = (a << w) | b
            if op == 'fshl':
                return mask(x >> (w - c), w) if c else a
            return mask(x >> c, w)
        raise Unsupported("symbolic funnel shift")
    if name.startswith('llvm.ptrmask'):
        p, m_ = av
        a = e.p2i(st, p) & m_
        return e.i2p(st, a)
    if name in ('llvm.trap', 'llvm.ubsantrap', 'llvm.debugtrap'):
        raise Violation('abort', "llvm.trap")
    if name.startswith('llvm.is.constant'):
        return 0
    if name.startswith('llvm.fabs.f64'):
        x = av[0]
        return abs(x) if isinstance(x, float) else z3.fpAbs(x)
    if name.startswith('llvm.eh.typeid.for'):
        return 1
    raise Unsupported("intrinsic " + name)


def verif(e, st, fr, name, av, ins):
    stats = e.stats
    if name.startswith('verif_any_'):
        w = {'bool': 1, 'u8': 8, 'u16': 16, 'u32': 32, 'u64': 64}[name[10:]]
        nm = "in%d_%s" % (len(st.inputs), name[10:])
        if w == 1:
            v = z3.Bool(nm)
        else:
            v = z3.BitVec(nm, w)
        st.inputs.append((nm, v))
        return v
    if name == 'verif_choice':
        # a symbolic input in 0..n decided at its source: one successor state per value, each with `input == k`
        # in its path condition (so a counterexample still is a model of the inputs)
        n = av[0]
        if type(n) is not int:
            raise Unsupported("verif_choice with a symbolic bound")
        if n <= 0:
            raise PathEnd("assume-false")
        nm = "in%d_u8" % len(st.inputs)
        v = z3.BitVec(nm, 8)
        st.inputs.append((nm, v))
        for k in range(n - 1, 0, -1):
            o = st.clone()
            o.pc.append(v == k)
            o.model = None
            o.decisions.append(k)
            o.depth += 1
            e.finish_call(o, ins, k)
            e.work.append(o)
            stats.forks += 1
        st.pc.append(v == 0)
        st.model = None
        if n > 1:
            st.decisions.append(0)
            st.depth += 1
        return 0
    if name == 'verif_assume':
        c = av[0]
        if type(c) is int:
            if not c & 1:
                raise PathEnd("assume-false")
            return None
        cb = c if is_bool(c) else c == 1
        cb = z3.simplify(cb)
        if z3.is_true(cb):
            return None
        if z3.is_false(cb):
            raise PathEnd("assume-false")
        ms = e.model_says(st, cb)
        st.pc.append(cb)
        if ms is not True:
            sat, m = e.check(st)
            if not sat:
                raise PathEnd("assume-false")
            st.model = m
        return None
    if name == 'verif_assert':
        c, aid = av[0], av[1]
        stats.asserts_checked += 1
        stats.assert_ids.add(aid)
        if type(c) is int:
            if not c & 1:
                raise Violation('assert:%d' % aid, "harness obligation %d is false on this path" % aid)
            return None
        if c is UNDEF:
            raise Violation('uninit-use', "obligation %d depends on an undefined value" % aid)
        stats.asserts_symbolic += 1
        cb = c if is_bool(c) else c == 1
        cb = z3.simplify(cb)
        if z3.is_true(cb):
            return None
        ncb = z3.Not(cb)
        ms = e.model_says(st, cb)
        if ms is False:
            sat, m = True, st.model
        else:
            sat, m = e.check(st, ncb)
        if sat:
            e.record_violation(st, 'assert:%d' % aid, "harness obligation %d can be false" % aid, ncb)
            # keep exploring the inputs for which it holds, so that further violations are still found
            st.pc.append(cb)
            sat2, m2 = e.check(st)
            if not sat2:
                raise PathEnd("assert-false")
            st.model = m2
        return None
    if name == 'verif_cover':
        st.covers.add(av[0])
        return None
    if name == 'verif_event':
        st.events.append(('ev',) + tuple(av))
        return None
    if name == 'verif_panic':
        st.events.append(('panic', 'injected'))
        st.unw = ('aggv', [Ptr(None, 0xdead0), 0])
        return THROW
    if name == 'verif_heap_live':
        return st.heap_live
    if name == 'verif_heap_bytes':
        return st.heap_bytes
    if name == 'verif_alloc_size':
        p = av[0]
        if isinstance(p, Ptr) and p.obj is not None:
            o = st.objs.get(p.obj)
            if o is not None and o.alive and o.kind == 'heap':
                return o.size
        return 0
    raise Unsupported("extern " + name)
