"""Parser for the textual LLVM IR that rustc 1.95 (LLVM 22) emits.

Only what rustc emits for rust-cc and the harness crate is supported; anything else is a hard
error (`SyntaxError` / `NotImplementedError`) so that an unknown construct can never be skipped
silently."""
import re, struct

PTR = 8

TOK = re.compile(r'''
    \s+ |
    (?P<str>c"(?:[^"\\]|\\[0-9A-Fa-f]{2}|\\\\)*") |
    (?P<qid>[@%]"(?:[^"\\]|\\.)*") |
    (?P<qstr>"(?:[^"\\]|\\.)*") |
    (?P<id>[@%][-a-zA-Z$._0-9]+) |
    (?P<meta>![-a-zA-Z$._0-9]*) |
    (?P<attrgrp>\#[0-9]+) |
    (?P<num>-?[0-9]+\.[0-9]+(?:e[-+]?[0-9]+)?|0x[0-9A-Fa-f]+|-?[0-9]+) |
    (?P<word>[a-zA-Z_][-a-zA-Z_.0-9]*) |
    (?P<punc><\{|\}>|\.\.\.|[()\[\]{}<>,=*:])
''', re.X)


def tokenize(s):
    out = []
    pos = 0
    n = len(s)
    match = TOK.match
    while pos < n:
        m = match(s, pos)
        if not m:
            raise SyntaxError("tok: %r" % s[pos:pos + 40])
        pos = m.end()
        k = m.lastgroup
        if k is None:
            continue
        out.append((k, m.group(k)))
    return out


class P:
    """token cursor"""
    __slots__ = ('t', 'i')

    def __init__(self, toks):
        self.t = toks
        self.i = 0

    def peek(self, o=0):
        j = self.i + o
        return self.t[j] if j < len(self.t) else (None, None)

    def next(self):
        x = self.t[self.i]
        self.i += 1
        return x

    def accept(self, v):
        if self.i < len(self.t) and self.t[self.i][1] == v:
            self.i += 1
            return True
        return False

    def expect(self, v):
        x = self.next()
        if x[1] != v:
            raise SyntaxError("expected %r got %r at %r" % (v, x, self.t[max(0, self.i - 6):self.i + 4]))

    def done(self):
        return self.i >= len(self.t)


# ----------------------------------------------------------------------------- types
class Ty:
    __slots__ = ('k', 'a', 'b', '_size', '_align')

    def __init__(s, k, a=None, b=None):
        s.k = k
        s.a = a
        s.b = b
        s._size = None
        s._align = None

    def __repr__(s):
        return "Ty(%s,%r,%r)" % (s.k, s.a, s.b)


NAMED = {}
_INT_TYS = {}


def int_ty(bits):
    t = _INT_TYS.get(bits)
    if t is None:
        t = _INT_TYS[bits] = Ty('int', bits)
    return t


T_PTR = Ty('ptr')
T_VOID = Ty('void')
T_F64 = Ty('f64')
T_F32 = Ty('f32')
T_LABEL = Ty('label')
T_META = Ty('metadata')
T_TOKEN = Ty('token')


def parse_type(p):
    k, v = p.next()
    if k == 'word':
        if v[0] == 'i' and v[1:].isdigit():
            t = int_ty(int(v[1:]))
        elif v == 'ptr':
            t = T_PTR
        elif v == 'void':
            t = T_VOID
        elif v == 'double':
            t = T_F64
        elif v == 'float':
            t = T_F32
        elif v == 'label':
            t = T_LABEL
        elif v == 'metadata':
            t = T_META
        elif v == 'token':
            t = T_TOKEN
        else:
            raise SyntaxError("type? " + v)
    elif v == '[':
        n = int(p.next()[1])
        p.expect('x')
        e = parse_type(p)
        p.expect(']')
        t = Ty('arr', n, e)
    elif v == '{' or v == '<{':
        packed = v == '<{'
        fs = []
        end = '}>' if packed else '}'
        if not p.accept(end):
            while True:
                fs.append(parse_type(p))
                if p.accept(end):
                    break
                p.expect(',')
        t = Ty('struct', fs, packed)
    elif v == '<':
        n = int(p.next()[1])
        p.expect('x')
        e = parse_type(p)
        p.expect('>')
        t = Ty('vec', n, e)
    elif k in ('id', 'qid') and v[0] == '%':
        t = Ty('named', v)
    else:
        raise SyntaxError("type? %r" % (v,))
    return t


def resolve(t):
    while t.k == 'named':
        t = NAMED[t.a]
    return t


def align_of(t):
    t = resolve(t)
    if t._align is not None:
        return t._align
    k = t.k
    if k == 'int':
        b = (t.a + 7) // 8
        a = 1
        while a < b and a < 16:
            a *= 2
        if t.a > 64:
            a = 16
    elif k == 'ptr' or k == 'f64':
        a = 8
    elif k == 'f32':
        a = 4
    elif k == 'arr':
        a = align_of(t.b)
    elif k == 'vec':
        a = size_of(t)
    elif k == 'struct':
        a = 1 if t.b else max([align_of(f) for f in t.a] or [1])
    else:
        raise NotImplementedError(t)
    t._align = a
    return a


def size_of(t):
    t = resolve(t)
    if t._size is not None:
        return t._size
    k = t.k
    if k == 'int':
        b = (t.a + 7) // 8
        a = align_of(t)
        r = (b + a - 1) // a * a
    elif k == 'ptr' or k == 'f64':
        r = 8
    elif k == 'f32':
        r = 4
    elif k == 'arr':
        r = t.a * size_of(t.b)
    elif k == 'vec':
        r = t.a * size_of(t.b)
    elif k == 'struct':
        off = 0
        for f in t.a:
            if not t.b:
                a = align_of(f)
                off = (off + a - 1) // a * a
            off += size_of(f)
        if not t.b:
            a = align_of(t)
            off = (off + a - 1) // a * a
        r = off
    elif k == 'void':
        r = 0
    else:
        raise NotImplementedError(t)
    t._size = r
    return r


def field_off(t, i):
    t = resolve(t)
    off = 0
    for j, f in enumerate(t.a):
        if not t.b:
            a = align_of(f)
            off = (off + a - 1) // a * a
        if j == i:
            return off
        off += size_of(f)
    raise IndexError


# ----------------------------------------------------------------------------- values
class Ptr:
    __slots__ = ('obj', 'off')

    def __init__(s, obj, off):
        s.obj = obj
        s.off = off

    def __repr__(s):
        return "Ptr(%s+%s)" % (s.obj, s.off)

    def __eq__(s, o):
        return isinstance(o, Ptr) and s.obj == o.obj and s.off == o.off

    def __hash__(s):
        return hash((s.obj, s.off))


class Undef:
    def __repr__(s):
        return "undef"

    def __reduce__(s):
        # a singleton, also across the pickled parse cache (`v is UNDEF` is used everywhere)
        return (_get_undef, ())


def _get_undef():
    return UNDEF


UNDEF = Undef()


class FnRef:
    __slots__ = ('name',)

    def __init__(s, name):
        s.name = name

    def __repr__(s):
        return "Fn(%s)" % s.name

    def __eq__(s, o):
        return isinstance(o, FnRef) and s.name == o.name

    def __hash__(s):
        return hash(s.name)


class Loc:
    """operand: a local SSA value"""
    __slots__ = ('n',)

    def __init__(s, n):
        s.n = n

    def __repr__(s):
        return "L(%s)" % s.n


class Glob:
    """operand: a global / function symbol"""
    __slots__ = ('n',)

    def __init__(s, n):
        s.n = n

    def __repr__(s):
        return "G(%s)" % s.n


class CExpr:
    """operand: constant expression or aggregate, evaluated against a state"""
    __slots__ = ('k', 'args')

    def __init__(s, k, *args):
        s.k = k
        s.args = args

    def __repr__(s):
        return "CE(%s,%r)" % (s.k, s.args)


def mask(v, bits):
    return v & ((1 << bits) - 1)


def sext(v, bits):
    return v - (1 << bits) if v >> (bits - 1) else v


def parse_value(p, ty):
    """parse a value of (already parsed) type ty; returns an operand"""
    k, v = p.peek()
    t = resolve(ty) if ty is not None else None
    if k in ('id', 'qid'):
        p.next()
        if v[0] == '%':
            return Loc(v)
        return Glob(v[1:].strip('"'))
    if k == 'num':
        p.next()
        if t.k == 'f64':
            if v.startswith('0x'):
                return struct.unpack('<d', struct.pack('<Q', int(v, 16)))[0]
            return float(v)
        if t.k == 'f32':
            if v.startswith('0x'):
                return struct.unpack('<d', struct.pack('<Q', int(v, 16)))[0]
            return float(v)
        return mask(int(v, 0), t.a)
    if k == 'word':
        if v in ('true', 'false'):
            p.next()
            return 1 if v == 'true' else 0
        if v == 'null':
            p.next()
            return Ptr(None, 0)
        if v in ('undef', 'poison'):
            p.next()
            return UNDEF
        if v == 'zeroinitializer':
            p.next()
            return CExpr('zero', ty)
        if v == 'inttoptr':
            p.next()
            p.expect('(')
            t1 = parse_type(p)
            x = parse_value(p, t1)
            p.expect('to')
            parse_type(p)
            p.expect(')')
            return CExpr('inttoptr', x)
        if v == 'ptrtoint':
            p.next()
            p.expect('(')
            t1 = parse_type(p)
            x = parse_value(p, t1)
            p.expect('to')
            t2 = parse_type(p)
            p.expect(')')
            return CExpr('ptrtoint', x, t2)
        if v == 'getelementptr':
            p.next()
            while p.peek()[1] in ('inbounds', 'nuw', 'nusw', 'nsw'):
                p.next()
            p.expect('(')
            bt = parse_type(p)
            p.expect(',')
            pt = parse_type(p)
            base = parse_value(p, pt)
            idx = []
            while p.accept(','):
                it = parse_type(p)
                idx.append(parse_value(p, it))
            p.expect(')')
            return CExpr('gep', bt, base, idx)
        if v in ('sub', 'add'):
            p.next()
            while p.peek()[1] in ('nuw', 'nsw'):
                p.next()
            p.expect('(')
            t1 = parse_type(p)
            a = parse_value(p, t1)
            p.expect(',')
            t2 = parse_type(p)
            b = parse_value(p, t2)
            p.expect(')')
            return CExpr(v, t1, a, b)
    if k == 'str':
        p.next()
        return parse_cstr(v)
    if v in ('{', '<{', '[', '<'):
        p.next()
        end = {'{': '}', '<{': '}>', '[': ']', '<': '>'}[v]
        items = []
        if not p.accept(end):
            while True:
                it = parse_type(p)
                items.append((it, parse_value(p, it)))
                if p.accept(end):
                    break
                p.expect(',')
        return CExpr('agg', items)
    raise SyntaxError("value? %r %r" % (p.peek(), ty))


def parse_cstr(tok):
    s = tok[2:-1]
    out = bytearray()
    i = 0
    while i < len(s):
        if s[i] == '\\':
            if s[i + 1] == '\\':
                out.append(92)
                i += 2
            else:
                out.append(int(s[i + 1:i + 3], 16))
                i += 3
        else:
            out.append(ord(s[i]))
            i += 1
    return bytes(out)


# ----------------------------------------------------------------------------- module parsing
class Func:
    def __init__(s, name, params, rett):
        s.name = name
        s.params = params
        s.rett = rett
        s.blocks = {}
        s.order = []
        s.entry = None
        s.module = None
        s.ninstr = 0


ATTR_WORDS = set('''noundef nonnull noalias readonly writeonly readnone nocapture zeroext signext inreg returned immarg
 nofree nosync nounwind willreturn mustprogress tail musttail notail fastcc ccc coldcc dso_local internal private hidden
 unnamed_addr local_unnamed_addr inbounds nuw nsw exact nneg disjoint samesign volatile swifterror nest byval sret
 noreturn cold inlinehint alwaysinline noinline optnone uwtable nonlazybind sanitize_address weak linkonce_odr weak_odr
 available_externally external protected writable dead_on_unwind dead_on_return noext nocallback nomerge speculatable
 nocreateundeforpoison allocalign allocptr noprofile optsize minsize nobuiltin builtin convergent hot naked
 nosanitize_bounds nosanitize_coverage null_pointer_is_valid safestack ssp sspreq sspstrong strictfp nocf_check shadowcallstack
 presplitcoroutine fn_ret_thunk_extern skipprofile nodivergencesource noduplicate norecurse nonlazybind noredzone
 noimplicitfloat returns_twice sanitize_memory sanitize_thread sanitize_hwaddress thread_local localdynamic initialexec localexec'''.split())
ATTR_PAREN = ('align', 'dereferenceable', 'dereferenceable_or_null', 'captures', 'range', 'initializes', 'memory',
              'nofpclass', 'sret', 'byval', 'alignstack', 'allockind', 'allocsize', 'preallocated', 'inalloca', 'elementtype',
              'dead_on_return')


def skip_parens(p):
    depth = 0
    while True:
        x = p.next()[1]
        if x == '(':
            depth += 1
        elif x == ')':
            depth -= 1
            if depth == 0:
                break


def skip_attrs(p):
    """skip parameter/return attributes"""
    while True:
        k, v = p.peek()
        if k == 'word' and v in ATTR_PAREN:
            p.next()
            if p.peek()[1] == '(':
                skip_parens(p)
            elif v in ('align', 'dereferenceable', 'dereferenceable_or_null', 'alignstack'):
                p.next()
            continue
        if k == 'word' and v in ATTR_WORDS:
            p.next()
            if p.peek()[1] == '(':
                skip_parens(p)
            continue
        if k == 'attrgrp':
            p.next()
            continue
        if k == 'str' or (k == 'qid'):
            break
        break


class Module:
    def __init__(s):
        s.funcs = {}
        s.globals = {}
        s.decls = set()
        s.aliases = {}
        s.files = []


def strip_comment(line):
    if line.lstrip().startswith(';'):
        return ''
    i = line.find(';')
    if i < 0:
        return line
    if '"' not in line:
        return line[:i]
    # find first ';' outside quotes
    inq = False
    j = 0
    n = len(line)
    while j < n:
        c = line[j]
        if c == '\\' and inq:
            j += 2
            continue
        if c == '"':
            inq = not inq
        elif c == ';' and not inq:
            return line[:j]
        j += 1
    return line


def parse_module(path, mod):
    lines = open(path).read().split('\n')
    mod.files.append(path)
    i = 0
    n = len(lines)
    while i < n:
        line = strip_comment(lines[i])
        i += 1
        if not line.strip():
            continue
        if line.startswith(('source_filename', 'target ', 'attributes ', '!', 'declare ', 'module asm', '$')):
            if line.startswith('declare'):
                m = re.search(r'@("[^"]+"|[-\w$.]+)\(', line)
                mod.decls.add(m.group(1).strip('"'))
            continue
        if line.startswith('%'):
            toks = tokenize(line)
            p = P(toks)
            name = p.next()[1]
            p.expect('=')
            p.expect('type')
            if p.peek()[1] == 'opaque':
                NAMED[name] = Ty('struct', [], False)
            else:
                NAMED[name] = parse_type(p)
            continue
        if line.startswith('@'):
            if line.startswith(('@llvm.used', '@llvm.compiler.used', '@llvm.global_ctors', '@llvm.global_dtors')):
                continue
            parse_global(line, mod)
            continue
        if line.startswith('define'):
            body = []
            while True:
                l2 = lines[i]
                i += 1
                if l2 == '}':
                    break
                body.append(l2)
            parse_function(line, body, mod, path)
            continue
        raise SyntaxError("top-level? " + line[:80])


LINKAGE = set('private internal available_externally linkonce weak common appending extern_weak linkonce_odr weak_odr external '
              'default hidden protected dllimport dllexport dso_local dso_preemptable unnamed_addr local_unnamed_addr '
              'externally_initialized'.split())


def parse_global(line, mod):
    toks = tokenize(line)
    p = P(toks)
    name = p.next()[1][1:].strip('"')
    p.expect('=')
    tl = False
    const = False
    while True:
        k, v = p.peek()
        if v in ('global', 'constant'):
            p.next()
            const = v == 'constant'
            break
        if v == 'thread_local':
            tl = True
            p.next()
            if p.peek()[1] == '(':
                skip_parens(p)
            continue
        if v == 'alias':
            p.next()
            parse_type(p)
            if p.peek()[1] == '(':
                skip_parens(p)  # function type
            p.expect(',')
            parse_type(p)
            tgt = p.next()[1][1:].strip('"')
            mod.aliases[name] = tgt
            return
        if v in LINKAGE:
            p.next()
            continue
        if v == 'addrspace':
            p.next()
            skip_parens(p)
            continue
        raise SyntaxError("global? %r in %s" % (v, line[:100]))
    ty = parse_type(p)
    init = None
    if not p.done() and p.peek()[1] != ',':
        init = parse_value(p, ty)
    al = 1
    while not p.done():
        if p.next()[1] == 'align':
            al = int(p.next()[1])
    if init is None and name in mod.globals:
        return  # an external declaration never replaces a definition from another module
    mod.globals[name] = (ty, init, al, const, tl)


def parse_function(header, body, mod, path):
    toks = tokenize(header)
    p = P(toks)
    p.expect('define')
    skip_attrs(p)
    rett = parse_type(p)
    name = p.next()[1][1:].strip('"')
    p.expect('(')
    params = []
    if not p.accept(')'):
        while True:
            if p.accept('...'):
                p.expect(')')
                break
            t = parse_type(p)
            skip_attrs(p)
            pn = p.next()[1]
            params.append((t, pn))
            if p.accept(')'):
                break
            p.expect(',')
    f = Func(name, params, rett)
    f.module = path
    cur = None
    pend = None
    for raw in body:
        line = strip_comment(raw)
        if not line.strip():
            continue
        if not line.startswith(' '):
            m = re.match(r'^("(?:[^"\\]|\\.)*"|[-\w$.]+):', line)
            lbl = m.group(1).strip('"')
            cur = []
            f.blocks[lbl] = cur
            f.order.append(lbl)
            if f.entry is None:
                f.entry = lbl
            continue
        s = line.strip()
        if cur is None:
            # unnamed entry block: its implicit label is the next unnamed value number after the parameters
            nums = [int(n[1:]) for _, n in params if n[1:].isdigit()]
            lbl0 = str(max(nums) + 1 if nums else 0)
            cur = []
            f.blocks[lbl0] = cur
            f.order.append(lbl0)
            f.entry = lbl0
        if pend is not None:
            pend += ' ' + s
        else:
            pend = s
        # decide whether the instruction is complete
        if re.match(r'^(%\S+ = )?invoke ', pend) and ' unwind label ' not in pend:
            continue
        if pend.startswith('switch ') and not re.search(r'\](\s*,\s*![-\w.]+ ![0-9]+)*\s*$', pend):
            continue
        if re.match(r'^%\S+ = landingpad ', pend) and not re.search(r'\b(cleanup|catch|filter)\b', pend):
            continue
        try:
            ins = parse_instr(pend)
        except (NotImplementedError, SyntaxError) as ex:
            # kept as a trap: executing it is a hard error (never skipped), but code that is never reached may contain it
            ins = ('unsupported', "%s: %s" % (type(ex).__name__, str(ex)[:160]))
        pend = None
        if ins[0] == 'lpclause':
            # further clause of the previous landingpad
            prev = cur[-1]
            assert prev[0] == 'landingpad'
            cur[-1] = ('landingpad', prev[1], prev[2] or ins[1])
            continue
        cur.append(ins)
        f.ninstr += 1
    if pend is not None:
        raise SyntaxError("dangling instruction: " + pend[:100])
    mod.funcs[name] = f


BINOPS = {'add', 'sub', 'mul', 'and', 'or', 'xor', 'shl', 'lshr', 'ashr', 'udiv', 'urem', 'sdiv', 'srem', 'fmul', 'fadd', 'fsub', 'fdiv', 'frem'}
CASTS = {'trunc', 'zext', 'sext', 'ptrtoint', 'inttoptr', 'bitcast', 'uitofp', 'sitofp', 'fptoui', 'fptosi', 'fpext', 'fptrunc', 'addrspacecast', 'ptrtoaddr'}
FLAGS = ('nuw', 'nsw', 'exact', 'disjoint', 'fast', 'nnan', 'ninf', 'nsz', 'arcp', 'contract', 'afn', 'reassoc', 'nneg', 'samesign', 'inbounds', 'nusw')


def lbl(p):
    return p.next()[1][1:].strip('"')


def parse_instr(s):
    if re.match(r'^(cleanup|catch |filter )', s):
        return ('lpclause', bool(re.match(r'^(catch|filter) ', s)))
    if ' asm ' in s and ('call ' in s or 'invoke ' in s):
        if 'invoke ' in s:
            raise NotImplementedError("invoke asm")
        return ('nop',)
    toks = tokenize(s)
    # drop metadata attachments ", !x !n"
    for j, (k, v) in enumerate(toks):
        if k == 'meta' and j > 0 and toks[j - 1][1] == ',':
            toks = toks[:j - 1]
            break
    p = P(toks)
    dst = None
    if p.peek(1)[1] == '=' and p.peek()[0] in ('id', 'qid'):
        dst = p.next()[1]
        p.next()
    while p.peek()[1] in ('tail', 'musttail', 'notail'):
        p.next()
    op = p.next()[1]
    if op in BINOPS:
        while p.peek()[1] in FLAGS:
            p.next()
        t = parse_type(p)
        a = parse_value(p, t)
        p.expect(',')
        b = parse_value(p, t)
        return ('bin', dst, op, resolve(t), a, b)
    if op in ('icmp', 'fcmp'):
        while p.peek()[1] in FLAGS:
            p.next()
        pred = p.next()[1]
        t = parse_type(p)
        a = parse_value(p, t)
        p.expect(',')
        b = parse_value(p, t)
        return (op, dst, pred, resolve(t), a, b)
    if op in CASTS:
        while p.peek()[1] in FLAGS:
            p.next()
        t = parse_type(p)
        a = parse_value(p, t)
        p.expect('to')
        t2 = parse_type(p)
        return ('cast', dst, op, resolve(t), a, resolve(t2))
    if op == 'load':
        if p.accept('atomic'):
            pass
        p.accept('volatile')
        t = parse_type(p)
        p.expect(',')
        pt = parse_type(p)
        a = parse_value(p, pt)
        return ('load', dst, t, a)
    if op == 'store':
        if p.accept('atomic'):
            pass
        p.accept('volatile')
        t = parse_type(p)
        v = parse_value(p, t)
        p.expect(',')
        pt = parse_type(p)
        a = parse_value(p, pt)
        return ('store', t, v, a)
    if op == 'alloca':
        t = parse_type(p)
        al = 1
        if p.accept(','):
            if p.accept('align'):
                al = int(p.next()[1])
            else:
                raise NotImplementedError("alloca with count: " + s)
        return ('alloca', dst, t, al)
    if op == 'getelementptr':
        while p.peek()[1] in FLAGS:
            p.next()
        bt = parse_type(p)
        p.expect(',')
        pt = parse_type(p)
        base = parse_value(p, pt)
        idx = []
        while p.accept(','):
            it = parse_type(p)
            idx.append((resolve(it), parse_value(p, it)))
        return ('gep', dst, bt, base, idx)
    if op == 'br':
        if p.peek()[1] == 'label':
            p.next()
            return ('br', lbl(p))
        t = parse_type(p)
        c = parse_value(p, t)
        p.expect(',')
        p.expect('label')
        a = lbl(p)
        p.expect(',')
        p.expect('label')
        b = lbl(p)
        return ('condbr', c, a, b)
    if op == 'switch':
        t = parse_type(p)
        v = parse_value(p, t)
        p.expect(',')
        p.expect('label')
        d = lbl(p)
        p.expect('[')
        cases = []
        while not p.accept(']'):
            ct = parse_type(p)
            cv = parse_value(p, ct)
            p.expect(',')
            p.expect('label')
            cases.append((cv, lbl(p)))
        return ('switch', resolve(t), v, d, cases)
    if op == 'ret':
        t = parse_type(p)
        if resolve(t).k == 'void':
            return ('ret', None, None)
        return ('ret', t, parse_value(p, t))
    if op == 'unreachable':
        return ('unreachable',)
    if op == 'resume':
        t = parse_type(p)
        return ('resume', parse_value(p, t))
    if op == 'phi':
        while p.peek()[1] in FLAGS:
            p.next()
        t = parse_type(p)
        inc = []
        while True:
            p.expect('[')
            v = parse_value(p, t)
            p.expect(',')
            l = lbl(p)
            p.expect(']')
            inc.append((l, v))
            if not p.accept(','):
                break
        return ('phi', dst, t, dict(inc))
    if op == 'select':
        while p.peek()[1] in FLAGS:
            p.next()
        ct = parse_type(p)
        c = parse_value(p, ct)
        p.expect(',')
        t = parse_type(p)
        a = parse_value(p, t)
        p.expect(',')
        t2 = parse_type(p)
        b = parse_value(p, t2)
        return ('select', dst, c, resolve(t), a, b)
    if op == 'landingpad':
        rest = ' '.join(v for _, v in toks[p.i:])
        return ('landingpad', dst, bool(re.search(r'\b(catch|filter)\b', rest)))
    if op in ('extractvalue', 'insertvalue'):
        t = parse_type(p)
        a = parse_value(p, t)
        t2 = b = None
        if op == 'insertvalue':
            p.expect(',')
            t2 = parse_type(p)
            b = parse_value(p, t2)
        idx = []
        while p.accept(','):
            idx.append(int(p.next()[1]))
        return (op, dst, t, a, idx) if op == 'extractvalue' else (op, dst, t, a, t2, b, idx)
    if op in ('call', 'invoke'):
        skip_attrs(p)
        while p.peek()[0] == 'word' and p.peek()[1] in FLAGS:
            p.next()
        skip_attrs(p)
        rt = parse_type(p)
        if p.peek()[1] == '(':  # explicit function type
            skip_parens(p)
        callee = parse_value(p, T_PTR)
        p.expect('(')
        args = []
        if not p.accept(')'):
            while True:
                t = parse_type(p)
                skip_attrs(p)
                if resolve(t).k == 'metadata':
                    # metadata operand: skip tokens up to the next ',' or ')' at depth 0
                    depth = 0
                    while True:
                        x = p.peek()[1]
                        if depth == 0 and x in (',', ')'):
                            break
                        if x in ('(', '{', '['):
                            depth += 1
                        elif x in (')', '}', ']'):
                            depth -= 1
                        p.next()
                    args.append((t, None))
                else:
                    args.append((t, parse_value(p, t)))
                if p.accept(')'):
                    break
                p.expect(',')
        skip_attrs(p)
        # operand bundles
        if p.peek()[1] == '[':
            depth = 0
            while True:
                x = p.next()[1]
                if x == '[':
                    depth += 1
                elif x == ']':
                    depth -= 1
                    if depth == 0:
                        break
        ok = uw = None
        if op == 'invoke':
            p.expect('to')
            p.expect('label')
            ok = lbl(p)
            p.expect('unwind')
            p.expect('label')
            uw = lbl(p)
        return ('call', dst, rt, callee, args, ok, uw)
    if op == 'fneg':
        while p.peek()[1] in FLAGS:
            p.next()
        t = parse_type(p)
        a = parse_value(p, t)
        return ('fneg', dst, t, a)
    if op == 'freeze':
        t = parse_type(p)
        a = parse_value(p, t)
        return ('freeze', dst, t, a)
    if op == 'fence':
        return ('nop',)
    if op in ('extractelement', 'insertelement', 'shufflevector'):
        raise NotImplementedError("vector instruction: " + s[:100])
    raise NotImplementedError("instr: " + s[:100])


def demangle(name):
    """Best-effort demangling of legacy (_ZN) rust symbols for reports."""
    if name.startswith('_ZN'):
        s = name[3:]
        parts = []
        while s and s[0].isdigit():
            j = 0
            while s[j].isdigit():
                j += 1
            n = int(s[:j])
            parts.append(s[j:j + n])
            s = s[j + n:]
        if parts and re.match(r'^h[0-9a-f]{16}$', parts[-1]):
            parts = parts[:-1]
        out = '::'.join(parts)
        for a, b in (('$LT$', '<'), ('$GT$', '>'), ('$LP$', '('), ('$RP$', ')'), ('$C$', ','), ('$u20$', ' '), ('$RF$', '&'),
                     ('$BP$', '*'), ('$u7b$', '{'), ('$u7d$', '}'), ('$u5b$', '['), ('$u5d$', ']'), ('$u27$', "'"), ('..', '::')):
            out = out.replace(a, b)
        return out
    return name
