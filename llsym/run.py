"""Driver: parse IR modules, explore one entry point (optionally sharded over worker processes), report JSON."""
import sys, os, time, json, argparse, hashlib, pickle, traceback

from . import ir
from .ir import parse_module, Module
from .engine import Engine, Unsupported, State


def load_modules(paths, cache_dir=None):
    """Parse (or load from the parse cache, keyed by content hash) the given .ll files into one module."""
    h = hashlib.sha256()
    for p in paths:
        h.update(open(p, 'rb').read())
    h.update(open(ir.__file__, 'rb').read())
    key = h.hexdigest()
    if cache_dir:
        cp = os.path.join(cache_dir, 'parse-' + key[:24] + '.pkl')
        if os.path.exists(cp):
            try:
                mod, named = pickle.load(open(cp, 'rb'))
                ir.NAMED.update(named)
                return mod, key
            except Exception:
                pass
    mod = Module()
    for p in paths:
        parse_module(p, mod)
    for a, tgt in mod.aliases.items():
        if tgt in mod.funcs and a not in mod.funcs:
            mod.funcs[a] = mod.funcs[tgt]
    if cache_dir:
        os.makedirs(cache_dir, exist_ok=True)
        sys.setrecursionlimit(100000)
        tmp = cp + '.%d.tmp' % os.getpid()
        pickle.dump((mod, dict(ir.NAMED)), open(tmp, 'wb'), protocol=pickle.HIGHEST_PROTOCOL)
        os.replace(tmp, cp)
    return mod, key


def explore_entry(mod, entry, jobs=1, deadline=None, path_budget=None, max_steps=3_000_000, frontier=None, verbose=False,
                  tls_teardown=False, max_violations=4, seed=0):
    """Explore all paths of `entry`. With jobs > 1 the master expands a frontier of states breadth-first and forks worker
    processes, each exploring a slice of the frontier depth-first; results are merged."""
    t0 = time.time()
    eng = Engine(mod, max_steps=max_steps, deadline=deadline, verbose=verbose, max_violations=max_violations)
    eng.tls_teardown = tls_teardown
    st0 = eng.start(entry)
    if jobs <= 1:
        eng.explore([st0], path_budget)
        d = eng.stats.to_dict()
        d['wall'] = time.time() - t0
        d['workers'] = 1
        return d
    # ---- frontier expansion: run states breadth-first until enough pending states exist
    want = frontier or jobs * 6
    eng.work = []
    pending = [st0]
    rounds = 0
    t_exp = time.time()
    while pending and len(pending) < want and rounds < 10000:
        rounds += 1
        if len(pending) >= 2 and (rounds > 4 * want or time.time() - t_exp > 4.0):
            break  # the tree is narrow near the root: hand out what there is
        # take the shallowest state, run it until it forks (or ends)
        pending.sort(key=lambda x: x.depth)
        st = pending.pop(0)
        eng.work = []
        run_until_fork(eng, st, pending)
        if deadline is not None and time.time() > deadline:
            break
        if len(eng.stats.violations) >= max_violations:
            break
    master = eng.stats.to_dict()
    if not pending:
        master['wall'] = time.time() - t0
        master['workers'] = 1
        return master
    # ---- fork workers
    import random
    rnd = random.Random(seed)
    rnd.shuffle(pending)
    slices = [pending[i::jobs] for i in range(jobs)]
    slices = [x for x in slices if x]
    pids = []
    for wi, sl in enumerate(slices):
        r, w = os.pipe()
        pid = os.fork()
        if pid == 0:
            os.close(r)
            try:
                weng = Engine(mod, max_steps=max_steps, deadline=deadline, verbose=verbose, max_violations=max_violations)
                weng.tls_teardown = tls_teardown
                weng.fn_addr = eng.fn_addr
                weng.fn_by_addr = eng.fn_by_addr
                pb = None if path_budget is None else max(1, path_budget // len(slices))
                weng.explore(sl, pb)
                out = weng.stats.to_dict()
            except BaseException as ex:  # noqa
                out = dict(error="%s: %s" % (type(ex).__name__, ex), trace=traceback.format_exc())
            with os.fdopen(w, 'wb') as f:
                pickle.dump(out, f)
            os._exit(0)
        os.close(w)
        pids.append((pid, r))
    from .engine import Stats
    total = Stats()
    total.merge(master)
    errors = []
    for pid, r in pids:
        with os.fdopen(r, 'rb') as f:
            data = f.read()
        os.waitpid(pid, 0)
        try:
            out = pickle.loads(data)
        except Exception:
            errors.append("worker %d died without a result" % pid)
            continue
        if 'error' in out:
            errors.append(out['error'] + "\n" + out.get('trace', ''))
            continue
        total.merge(out)
    d = total.to_dict()
    d['wall'] = time.time() - t0
    d['workers'] = len(slices)
    d['frontier'] = len(pending)
    if errors:
        d['errors'] = errors
    return d


def run_until_fork(eng, st, pending):
    """Run `st` until its first fork: the forked-off states and the continuing state go to `pending`."""
    from .engine import PathEnd, Violation
    stats = eng.stats
    forks0 = stats.forks
    try:
        while True:
            if st.unw is not None:
                eng.do_unwind(st)
                continue
            fr = st.frames[-1]
            ins = fr.code[fr.idx]
            st.steps += 1
            stats.instrs += 1
            if st.steps > eng.max_steps:
                raise Violation('non-termination', "path exceeded the step bound")
            eng.dispatch[ins[0]](st, fr, ins)
            if stats.forks != forks0:
                pending.extend(eng.work)
                eng.work = []
                pending.append(st)
                return
    except PathEnd as e:
        stats.paths += 1
        stats.ended[e.why] = stats.ended.get(e.why, 0) + 1
        stats.covers |= st.covers
        stats.max_depth = max(stats.max_depth, st.depth)
        if e.why == 'returned' and len(stats.samples) < 4:
            stats.samples.append(eng.describe_path(st))
    except Violation as v:
        stats.paths += 1
        stats.ended['violation'] = stats.ended.get('violation', 0) + 1
        eng.record_violation(st, v.kind, v.msg)
    pending.extend(eng.work)
    eng.work = []


def main():
    ap = argparse.ArgumentParser()
    ap.add_argument('--entry', required=True)
    ap.add_argument('--jobs', type=int, default=1)
    ap.add_argument('--timeout', type=float, default=None)
    ap.add_argument('--paths', type=int, default=None)
    ap.add_argument('--json', default=None)
    ap.add_argument('--cache', default=None)
    ap.add_argument('-v', action='store_true')
    ap.add_argument('files', nargs='+')
    a = ap.parse_args()
    t0 = time.time()
    mod, key = load_modules(a.files, a.cache)
    t1 = time.time()
    deadline = time.time() + a.timeout if a.timeout else None
    try:
        d = explore_entry(mod, a.entry, jobs=a.jobs, deadline=deadline, path_budget=a.paths, verbose=a.v)
    except Unsupported as ex:
        print("UNSUPPORTED:", ex)
        sys.exit(2)
    d['parse_s'] = t1 - t0
    hits = d.pop('fn_hits')
    print("entry=%s paths=%d forks=%d queries=%d solver=%.2fs instrs=%d wall=%.2fs parse=%.2fs workers=%s" % (
        a.entry, d['paths'], d['forks'], d['queries'], d['solver_time'], d['instrs'], d['wall'], d['parse_s'], d.get('workers')))
    print("ended:", d['ended'], "covers:", d['covers'], "incomplete:", d['incomplete'])
    for v in d['violations']:
        print("VIOLATION", v['kind'], v['msg'], v['inputs'])
        print("   stack:", v['stack'][-3:])
    for er in d.get('errors', []):
        print("ERROR", er)
    print("functions executed: %d" % len(hits))
    if a.json:
        d['fn_hits'] = hits
        json.dump(d, open(a.json, 'w'), indent=1, default=str)


if __name__ == '__main__':
    main()
